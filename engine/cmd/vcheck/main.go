// vcheck: runs the solver-based checks of /verif against /repo's current working tree.
//
//	vcheck run <ID> [--tier quick|thorough] [-j N] [--entry name] [--solver z3]
//	vcheck replay <ID> <violation.json>
package main

import (
	"bytes"
	"crypto/sha256"
	"encoding/json"
	"flag"
	"fmt"
	"os"
	"os/exec"
	"path/filepath"
	"regexp"
	"sort"
	"strconv"
	"strings"
	"time"

	"verif/engine/sym"
)

var (
	verifDir = envOr("VERIF_DIR", "/verif")
	repoDir  = envOr("VERIF_REPO", "/repo")
)

func envOr(k, d string) string {
	if v := os.Getenv(k); v != "" {
		return v
	}
	return d
}

// packages always loaded from source (pure Go, interpreted)
var defaultRoots = []string{"internal/stringslite", "errors", "bytes", "strings", "sort", "strconv", "unicode/utf8", "unicode", "math/bits", "encoding/binary", "encoding/hex", "container/list",
	"github.com/hashicorp/golang-lru", "github.com/hashicorp/golang-lru/simplelru"}

type TierCfg struct {
	Params   map[string]int `json:"params"`
	MaxPaths int            `json:"max_paths"`
	MaxSteps int64          `json:"max_steps"`
	Skip     bool           `json:"skip"`
}

type EntryCfg struct {
	Func     string  `json:"func"`
	About    string  `json:"about"`
	Quick    TierCfg `json:"quick"`
	Thorough TierCfg `json:"thorough"`
	// labels that must be reached (vacuity guard) in addition to every verifAssert label seen
	MustReach []string `json:"must_reach"`
	NoReplay  bool     `json:"no_replay"` // counterexamples depend on engine-internal choices
	// the native harness re-samples the engine-internal choice itself (e.g. map order by
	// repetition), so counterexamples using internal choices are still replayed natively
	ReplayInternal bool `json:"replay_internal"`
}

type CheckCfg struct {
	Property    string            `json:"property"`
	Package     string            `json:"package"` // import path of the package the harness is injected into
	Roots       []string          `json:"roots"`   // further packages loaded from source (bodies interpreted)
	Harness     []string          `json:"harness"`
	Extra       map[string][]string `json:"extra_overlays"` // package import path -> helper files injected there
	Entries     []EntryCfg        `json:"entries"`
	Stubs       map[string]string `json:"stubs"`
	Assumptions []string          `json:"assumptions"`
	Outside     []string          `json:"outside_claim"`
	Bounds      []string          `json:"bounds"`
	TimeoutMs   int               `json:"solver_timeout_ms"`
	Parts       []string          `json:"parts"` // further check directories reported under this property (parts.go)
}

type KnownFinding struct {
	Property string `json:"property"`
	Label    string `json:"label"`   // assertion label
	Entry    string `json:"entry"`   // harness entry
	What     string `json:"what"`    // description printed
	Status   string `json:"status"`  // "known" | "fixed"
	Commit   string `json:"commit"`  // for fixed
	Match    string `json:"match"`   // optional regexp over "name=value ..." rendering of the counterexample
	Predicate string `json:"predicate"` // optional named predicate over the counterexample (predicates.go)
}

func main() {
	if len(os.Args) < 3 {
		fmt.Fprintln(os.Stderr, "usage: vcheck run <ID> [--tier quick|thorough] | vcheck replay <ID> <file>")
		os.Exit(2)
	}
	switch os.Args[1] {
	case "run":
		stop := startProfile()
		rc := runWithParts(os.Args[2], os.Args[3:])
		stop()
		os.Exit(rc)
	case "replay":
		if len(os.Args) < 4 {
			fmt.Fprintln(os.Stderr, "usage: vcheck replay <ID> <file>")
			os.Exit(2)
		}
		os.Exit(cmdReplay(os.Args[2], os.Args[3]))
	}
	os.Exit(2)
}

func loadCheck(id string) (*CheckCfg, string, error) {
	dir := filepath.Join(verifDir, "checks", id)
	b, err := os.ReadFile(filepath.Join(dir, "check.json"))
	if err != nil {
		return nil, dir, err
	}
	var c CheckCfg
	dec := json.NewDecoder(bytes.NewReader(b))
	dec.DisallowUnknownFields()
	if err := dec.Decode(&c); err != nil {
		return nil, dir, fmt.Errorf("check.json: %v", err)
	}
	return &c, dir, nil
}

func pkgDir(c *CheckCfg) string {
	rel := strings.TrimPrefix(c.Package, "github.com/33cn/chain33")
	return filepath.Join(repoDir, rel)
}

func pkgName(c *CheckCfg) (string, error) {
	// read the package clause from a non-test file of the target package
	ents, err := os.ReadDir(pkgDir(c))
	if err != nil {
		return "", err
	}
	re := regexp.MustCompile(`(?m)^package\s+(\w+)`)
	for _, e := range ents {
		n := e.Name()
		if strings.HasSuffix(n, ".go") && !strings.HasSuffix(n, "_test.go") {
			b, _ := os.ReadFile(filepath.Join(pkgDir(c), n))
			if m := re.FindSubmatch(b); m != nil {
				return string(m[1]), nil
			}
		}
	}
	return "", fmt.Errorf("no package clause found in %s", pkgDir(c))
}

// overlayFiles returns virtual path -> content for harness + support.
func overlayFiles(c *CheckCfg, dir string) (map[string][]byte, error) {
	name, err := pkgName(c)
	if err != nil {
		return nil, err
	}
	ov := map[string][]byte{}
	sup, err := os.ReadFile(filepath.Join(verifDir, "engine", "support", "verif_support.go.tmpl"))
	if err != nil {
		return nil, err
	}
	ov[filepath.Join(pkgDir(c), "zz_verif_support.go")] = bytes.Replace(sup, []byte("package PKGNAME"), []byte("package "+name), 1)
	for _, h := range c.Harness {
		b, err := os.ReadFile(filepath.Join(dir, h))
		if err != nil {
			return nil, err
		}
		b = bytes.Replace(b, []byte("package PKGNAME"), []byte("package "+name), 1)
		ov[filepath.Join(pkgDir(c), "zz_verif_"+strings.TrimSuffix(filepath.Base(h), ".go")+".go")] = b
	}
	// helper files injected into other packages (they carry their own package clause)
	for pkg, files := range c.Extra {
		rel := strings.TrimPrefix(pkg, "github.com/33cn/chain33")
		for _, h := range files {
			b, err := os.ReadFile(filepath.Join(dir, h))
			if err != nil {
				return nil, err
			}
			ov[filepath.Join(repoDir, rel, "zz_verif_"+strings.TrimSuffix(filepath.Base(h), ".go")+".go")] = b
		}
	}
	return ov, nil
}

type entryResult struct {
	cfg    EntryCfg
	rep    *sym.Report
	params map[string]int
}

func cmdRun(id string, args []string) int {
	fs := flag.NewFlagSet("run", flag.ExitOnError)
	tier := fs.String("tier", envOr("VERIF_TIER", "quick"), "quick|thorough")
	jobs := fs.Int("j", 0, "workers")
	only := fs.String("entry", "", "run only this entry")
	solver := fs.String("solver", "z3-new", "z3|z3-new|cvc5")
	cross := fs.String("cross", "", "second solver for assertion queries")
	trace := fs.Bool("trace", false, "trace calls")
	noValidate := fs.Bool("no-validate", false, "skip native translator validation")
	maxPaths := fs.Int("max-paths", 0, "override path budget")
	fs.Parse(args)
	seed, _ := strconv.Atoi(envOr("VERIF_SEED", "0"))
	if *jobs == 0 {
		*jobs = 8
		if *tier == "thorough" {
			*jobs = 16
		}
	}
	if *cross == "" && *tier == "thorough" {
		*cross = "z3"
		if *solver == "z3" {
			*cross = "z3-new"
		}
	}
	t0 := time.Now()
	c, dir, err := loadCheck(id)
	if err != nil {
		return inconclusive(id, *tier, seed, t0, "cannot load check: "+err.Error(), nil, nil)
	}
	ov, err := overlayFiles(c, dir)
	if err != nil {
		return inconclusive(id, *tier, seed, t0, "overlay: "+err.Error(), c, nil)
	}
	roots := append([]string{c.Package}, c.Roots...)
	for _, d := range defaultRoots {
		dup := false
		for _, r := range roots {
			if r == d {
				dup = true
			}
		}
		if !dup {
			roots = append(roots, d)
		}
	}
	tl := time.Now()
	ld, err := sym.Load(repoDir, roots, ov, "")
	if err != nil {
		return inconclusive(id, *tier, seed, t0, "load: "+err.Error(), c, nil)
	}
	loadDur := time.Since(tl)
	hp := ld.Pkgs[c.Package]
	if hp == nil {
		return inconclusive(id, *tier, seed, t0, "harness package not loaded: "+c.Package, c, nil)
	}
	var results []entryResult
	for _, e := range c.Entries {
		if *only != "" && e.Func != *only {
			continue
		}
		tc := e.Quick
		if *tier == "thorough" {
			tc = e.Thorough
			if tc.Params == nil && tc.MaxPaths == 0 && !tc.Skip {
				tc = e.Quick
			}
		}
		if tc.Skip {
			continue
		}
		fn := hp.Func(e.Func)
		if fn == nil {
			return inconclusive(id, *tier, seed, t0, "entry not found: "+e.Func, c, nil)
		}
		cfg := sym.Config{Solver: *solver, CrossSolver: *cross, Workers: *jobs, Params: tc.Params, MaxPaths: tc.MaxPaths,
			MaxSteps: tc.MaxSteps, Trace: *trace, TimeoutMs: c.TimeoutMs, InitPkgs: nil}
		if *maxPaths > 0 {
			cfg.MaxPaths = *maxPaths
		}
		// initialise every source-loaded package (each init is guarded and runs its imports first);
		// the harness package last
		var names []string
		for n := range ld.Pkgs {
			if n != c.Package {
				names = append(names, n)
			}
		}
		sort.Strings(names)
		for _, n := range names {
			cfg.InitPkgs = append(cfg.InitPkgs, ld.Pkgs[n])
		}
		cfg.InitPkgs = append(cfg.InitPkgs, hp)
		if len(c.Stubs) > 0 {
			cfg.Overrides = map[string]*ssaFunction{}
			for target, stub := range c.Stubs {
				sf := hp.Func(stub)
				if sf == nil {
					return inconclusive(id, *tier, seed, t0, "stub not found: "+stub, c, nil)
				}
				cfg.Overrides[target] = sf
			}
		}
		rep, err := sym.Explore(ld.Prog, fn, cfg)
		if err != nil {
			return inconclusive(id, *tier, seed, t0, "explore: "+err.Error(), c, nil)
		}
		fmt.Printf("[%s] %s: paths=%d completed=%d pruned=%d violations=%d queries=%d (sat %d, unsat %d, unknown %d) solver=%.1fs (+values %.1fs, pop %.1fs) steps=%d wall=%.1fs\n",
			id, e.Func, rep.Paths, rep.Completed, rep.Pruned, len(rep.Violations), rep.Stats.Queries, rep.Stats.Sat, rep.Stats.Unsat, rep.Stats.Unknown,
			rep.Stats.Time.Seconds(), rep.Stats.ValueTime.Seconds(), rep.Stats.PopTime.Seconds(), rep.Steps, rep.Wall.Seconds())
		results = append(results, entryResult{cfg: e, rep: rep, params: tc.Params})
	}
	if len(results) == 0 {
		return inconclusive(id, *tier, seed, t0, "no entries run", c, nil)
	}
	return finish(id, *tier, seed, t0, c, dir, ld, results, loadDur, !*noValidate)
}

type ssaFunction = sym.SSAFunction

// ---------------------------------------------------------------- verdict, evidence

func inconclusive(id, tier string, seed int, t0 time.Time, reason string, c *CheckCfg, extra map[string]interface{}) int {
	fmt.Printf("INCONCLUSIVE property=%s reason=%s\n", pid(id), oneLine(reason))
	cov := map[string]interface{}{
		"explanation": "run was inconclusive: " + reason,
		"evaluations": 1, "distinct_nontrivial": 0,
		"inconclusive": []string{reason},
	}
	for k, v := range extra {
		cov[k] = v
	}
	writeEvidence(id, map[string]interface{}{
		"property_id": id, "tier": tier, "seed": seed, "level": "other",
		"coverage": cov, "wall_s": time.Since(t0).Seconds(), "violations": 0,
	})
	return 2
}

func oneLine(s string) string {
	s = strings.ReplaceAll(s, "\n", " | ")
	if len(s) > 600 {
		s = s[:600] + "…"
	}
	return s
}

func writeEvidence(id string, ev map[string]interface{}) {
	os.MkdirAll(filepath.Join(verifDir, "evidence"), 0755)
	b, _ := json.MarshalIndent(ev, "", " ")
	os.WriteFile(filepath.Join(verifDir, "evidence", id+".json"), append(b, '\n'), 0644)
}

func loadKnown() []KnownFinding {
	b, err := os.ReadFile(filepath.Join(verifDir, "known_findings.json"))
	if err != nil {
		return nil
	}
	var k struct {
		Findings []KnownFinding `json:"findings"`
	}
	json.Unmarshal(b, &k)
	return k.Findings
}

func renderCex(v sym.Violation) string {
	var parts []string
	for k := 0; k < len(v.Names) && k < len(v.Vector); {
		n := v.Names[k]
		j := k
		for j < len(v.Names) && j < len(v.Vector) && v.Names[j] == n && v.Vector[j] < 256 {
			j++
		}
		if j-k >= 4 { // run of byte inputs with one name: print as hex
			var sb strings.Builder
			for _, b := range v.Vector[k:j] {
				fmt.Fprintf(&sb, "%02x", b)
			}
			parts = append(parts, n+"=0x"+sb.String())
			k = j
			continue
		}
		parts = append(parts, fmt.Sprintf("%s=%d", n, v.Vector[k]))
		k++
	}
	return strings.Join(parts, " ")
}

func finish(id, tier string, seed int, t0 time.Time, c *CheckCfg, dir string, ld *sym.Loaded, results []entryResult, loadDur time.Duration, validate bool) int {
	known := loadKnown()
	var inconcl []string
	var newViol []string
	knownPrinted := map[string]bool{}
	states, transitions, queries, qsat, qunsat, qunk := 0, int64(0), 0, 0, 0, 0
	var solverTime time.Duration
	var maxQ time.Duration
	funcs := map[string]bool{}
	var samples []interface{}
	pruned := 0
	entrySummaries := []map[string]interface{}{}
	os.RemoveAll(filepath.Join(verifDir, "replays", id))
	os.MkdirAll(filepath.Join(verifDir, "replays", id), 0755)
	nviol := 0
	var valCases []replayCase

	for _, r := range results {
		rep := r.rep
		states += rep.Completed
		pruned += rep.Pruned
		transitions += rep.Steps
		queries += rep.Stats.Queries
		qsat += rep.Stats.Sat
		qunsat += rep.Stats.Unsat
		qunk += rep.Stats.Unknown
		solverTime += rep.Stats.Time
		if rep.Stats.MaxQuery > maxQ {
			maxQ = rep.Stats.MaxQuery
		}
		for f := range rep.Funcs {
			funcs[f] = true
		}
		for msg, n := range rep.Inconclusive {
			inconcl = append(inconcl, fmt.Sprintf("%s: %s (x%d)", r.cfg.Func, msg, n))
		}
		// vacuity: every must_reach label and at least one assertion evaluated
		if len(rep.Asserted) == 0 && len(rep.Violations) == 0 {
			inconcl = append(inconcl, fmt.Sprintf("%s: vacuous: no assertion was reached on any path", r.cfg.Func))
		}
		for _, l := range r.cfg.MustReach {
			if rep.Reached[l] == 0 && rep.Asserted[l] == 0 {
				inconcl = append(inconcl, fmt.Sprintf("%s: vacuous: label %q never reached", r.cfg.Func, l))
			}
		}
		for k, s := range rep.Samples {
			if k < 4 {
				samples = append(samples, map[string]interface{}{"entry": r.cfg.Func, "inputs": renderSample(s), "observes": s.Observes})
			}
			if !r.cfg.ReplayInternal && !r.cfg.NoReplay {
				// (entries whose native run re-samples an engine-internal choice are not comparable path by path)
				valCases = append(valCases, replayCase{Entry: r.cfg.Func, Vector: s.Vector, Params: r.params, Observes: s.Observes, expectPass: true})
			}
		}
		es := map[string]interface{}{"entry": r.cfg.Func, "about": r.cfg.About, "params": r.params, "paths": rep.Paths, "completed": rep.Completed,
			"pruned_infeasible": rep.Pruned, "asserts_evaluated": rep.Asserted, "reached": rep.Reached, "violations": len(rep.Violations),
			"queries": rep.Stats.Queries, "solver_time_s": rep.Stats.Time.Seconds(), "wall_s": rep.Wall.Seconds()}
		entrySummaries = append(entrySummaries, es)

		// violations: replay natively, then match against known findings
		// one native batch for all counterexamples of this entry
		var batch []replayCase
		var batchIdx []int
		for vi, v := range rep.Violations {
			if (v.Internal && !r.cfg.ReplayInternal) || r.cfg.NoReplay {
				continue
			}
			batch = append(batch, replayCase{Entry: r.cfg.Func, Vector: v.Vector, Params: r.params})
			batchIdx = append(batchIdx, vi)
		}
		nativeRes := map[int]nativeOut{}
		var nativeErr error
		if len(batch) > 0 {
			out, err := runNative(c, dir, batch)
			nativeErr = err
			if err == nil {
				for k, vi := range batchIdx {
					nativeRes[vi] = out[k]
				}
			}
		}
		printed := 0
		for vi, v := range rep.Violations {
			cex := renderCex(v)
			path := filepath.Join(verifDir, "replays", id, fmt.Sprintf("%s_%s_%d.json", r.cfg.Func, sanitizeFile(v.Label), vi))
			rc := replayCase{Entry: r.cfg.Func, Vector: v.Vector, Params: r.params, Label: v.Label, Msg: v.Msg, Names: v.Names, Property: pid(id)}
			b, _ := json.MarshalIndent(rc, "", " ")
			os.WriteFile(path, b, 0644)
			reproduced, detail := false, ""
			if (v.Internal && !r.cfg.ReplayInternal) || r.cfg.NoReplay {
				detail = "counterexample depends on engine-internal choices (map order / schedule); not natively replayable"
			} else if nativeErr != nil {
				detail = "native replay failed to run: " + nativeErr.Error()
			} else if o, ok := nativeRes[vi]; ok {
				reproduced, detail = o.reproduces(v.Label)
			}
			if !reproduced {
				inconcl = append(inconcl, fmt.Sprintf("%s: UNREPLAYED-COUNTEREXAMPLE label=%s (%s) cex: %s", r.cfg.Func, v.Label, detail, cex))
				continue
			}
			curViolation = v
			if kf := matchKnown(known, id, r.cfg.Func, v.Label, cex); kf != nil {
				key := kf.Label + "|" + kf.Entry + "|" + kf.Match
				if !knownPrinted[key] {
					knownPrinted[key] = true
					fmt.Printf("KNOWN-FINDING: property=%s %s [label=%s entry=%s]\n", pid(id), kf.What, v.Label, r.cfg.Func)
				}
				continue
			}
			nviol++
			if printed < 6 {
				newViol = append(newViol, fmt.Sprintf("VIOLATION property=%s replay=%s", pid(id), path))
				fmt.Printf("  violated: %s — %s\n  counterexample: %s\n  native replay: %s\n", v.Label, v.Msg, cex, detail)
			}
			printed++
		}
	}

	// translator validation: replay sampled path models natively
	validated := 0
	if validate && len(valCases) > 0 {
		out, err := runNative(c, dir, valCases)
		if err != nil {
			inconcl = append(inconcl, "translator validation could not run: "+err.Error())
		} else {
			for k, o := range out {
				vc := valCases[k]
				if o.AssumeFailed || len(o.Failed) > 0 || o.Panic != "" {
					inconcl = append(inconcl, fmt.Sprintf("translator validation: path model of %s does not pass natively (assume_failed=%v failed=%v panic=%q) vector=%v",
						vc.Entry, o.AssumeFailed, o.Failed, o.Panic, vc.Vector))
					continue
				}
				if !sameObserves(vc.Observes, o.Observes) {
					inconcl = append(inconcl, fmt.Sprintf("translator validation: observations differ for %s: engine=%v native=%v vector=%v", vc.Entry, vc.Observes, o.Observes, vc.Vector))
					continue
				}
				validated++
			}
		}
	}

	fl := make([]string, 0, len(funcs))
	for f := range funcs {
		if strings.Contains(f, "chain33") && !strings.Contains(f, "verif") {
			fl = append(fl, f)
		}
	}
	sort.Strings(fl)
	if len(samples) == 0 {
		samples = append(samples, "no completed path produced a sample")
	}
	level := "model_checking"
	cov := map[string]interface{}{
		"states":                        states,
		"transitions":                   transitions,
		"traces_validated_against_impl": validated,
		"samples":                       samples,
		"explanation":                   "states = feasible paths explored to completion by the go/ssa symbolic executor (each path stands for all inputs satisfying its path condition); transitions = SSA instructions interpreted; every assertion on every path is decided by an SMT query (unsat = holds for all inputs of the path).",
		"functions_encoded":             fl,
		"functions_source_hash":         sourceHash(c),
		"bounds":                        c.Bounds,
		"outside_claim":                 c.Outside,
		"entries":                       entrySummaries,
		"queries_discharged":            queries,
		"queries_sat":                   qsat,
		"queries_unsat":                 qunsat,
		"queries_unknown":               qunk,
		"solver_time_s":                 solverTime.Seconds(),
		"max_query_s":                   maxQ.Seconds(),
		"paths_pruned_infeasible":       pruned,
		"load_s":                        loadDur.Seconds(),
		"solver":                        solverVersions(),
		"inconclusive":                  inconcl,
		"exhaustive":                    len(inconcl) == 0,
	}
	if states == 0 {
		cov["states"] = 0
		level = "other"
	}
	ev := map[string]interface{}{
		"property_id": id, "tier": tier, "seed": seed, "level": level, "coverage": cov,
		"assumptions": c.Assumptions, "wall_s": time.Since(t0).Seconds(), "violations": nviol,
	}
	writeEvidence(id, ev)
	for _, l := range newViol {
		fmt.Println(l)
	}
	if nviol > 0 {
		return 1
	}
	if len(inconcl) > 0 {
		sort.Strings(inconcl)
		for _, m := range inconcl {
			fmt.Printf("INCONCLUSIVE property=%s reason=%s\n", pid(id), oneLine(m))
		}
		return 2
	}
	fmt.Printf("OK property=%s tier=%s paths=%d queries=%d validated=%d wall=%.1fs\n", pid(id), tier, states, queries, validated, time.Since(t0).Seconds())
	return 0
}

func sameObserves(a, b []string) bool {
	if len(a) != len(b) {
		return false
	}
	for i := range a {
		if a[i] != b[i] && !strings.Contains(a[i], "?") {
			return false
		}
	}
	return true
}

func renderSample(s sym.Sample) string {
	var parts []string
	for k, n := range s.Names {
		if k < len(s.Vector) {
			parts = append(parts, fmt.Sprintf("%s=%d", n, s.Vector[k]))
		}
		if k > 40 {
			parts = append(parts, "…")
			break
		}
	}
	return strings.Join(parts, " ")
}

func sanitizeFile(s string) string {
	return regexp.MustCompile(`[^A-Za-z0-9_.-]`).ReplaceAllString(s, "_")
}

func matchKnown(known []KnownFinding, id, entry, label, cex string) *KnownFinding {
	for k := range known {
		kf := &known[k]
		if kf.Property != pid(id) || kf.Status == "fixed" {
			continue
		}
		if kf.Label != "" && kf.Label != label {
			if ok, _ := regexp.MatchString("^(?:"+kf.Label+")$", label); !ok {
				continue
			}
		}
		if kf.Entry != "" && kf.Entry != entry {
			continue
		}
		if kf.Match != "" {
			if ok, _ := regexp.MatchString(kf.Match, cex); !ok {
				continue
			}
		}
		if kf.Predicate != "" {
			p := cexPredicates[kf.Predicate]
			if p == nil || !p(curViolation.Names, curViolation.Vector) {
				continue
			}
		}
		return kf
	}
	return nil
}

func sourceHash(c *CheckCfg) string {
	h := sha256.New()
	ents, _ := os.ReadDir(pkgDir(c))
	for _, e := range ents {
		if strings.HasSuffix(e.Name(), ".go") && !strings.HasSuffix(e.Name(), "_test.go") {
			b, _ := os.ReadFile(filepath.Join(pkgDir(c), e.Name()))
			h.Write(b)
		}
	}
	return fmt.Sprintf("%x", h.Sum(nil))[:16]
}

var solverVer string

func solverVersions() string {
	if solverVer != "" {
		return solverVer
	}
	out, _ := exec.Command("z3-new", "--version").Output()
	out2, _ := exec.Command("z3", "--version").Output()
	solverVer = strings.TrimSpace(string(out)) + " (z3-new, primary); " + strings.TrimSpace(string(out2)) + " (z3, cross-check)"
	return solverVer
}

// ---------------------------------------------------------------- native replay

type replayCase struct {
	Property   string         `json:"property,omitempty"`
	Entry      string         `json:"entry"`
	Vector     []uint64       `json:"vector"`
	Params     map[string]int `json:"params"`
	Label      string         `json:"label,omitempty"`
	Msg        string         `json:"msg,omitempty"`
	Names      []string       `json:"names,omitempty"`
	Observes   []string       `json:"observes,omitempty"`
	expectPass bool
}

type nativeOut struct {
	Failed       []string `json:"failed"`
	Panic        string   `json:"panic"`
	AssumeFailed bool     `json:"assume_failed"`
	Observes     []string `json:"observes"`
	Consumed     int      `json:"consumed"`
}

func (o nativeOut) reproduces(label string) (bool, string) {
	if o.AssumeFailed {
		return false, "native run: an assumption failed (vector outside the harness precondition)"
	}
	if label == "panic" {
		if o.Panic != "" {
			return true, "native run panics: " + o.Panic
		}
		return false, "native run does not panic"
	}
	for _, f := range o.Failed {
		if f == label {
			return true, "native run fails assertion " + label
		}
	}
	if o.Panic != "" {
		return false, "native run panics instead: " + o.Panic
	}
	return false, fmt.Sprintf("native run passes (failed=%v)", o.Failed)
}

// runNative compiles the harness into the real package (go test -overlay) and runs the cases.
func runNative(c *CheckCfg, dir string, cases []replayCase) ([]nativeOut, error) {
	work, err := os.MkdirTemp(filepath.Join(verifDir, "work"), "replay")
	if err != nil {
		os.MkdirAll(filepath.Join(verifDir, "work"), 0755)
		work, err = os.MkdirTemp(filepath.Join(verifDir, "work"), "replay")
		if err != nil {
			return nil, err
		}
	}
	defer os.RemoveAll(work)
	ov, err := overlayFiles(c, dir)
	if err != nil {
		return nil, err
	}
	name, _ := pkgName(c)
	repl := map[string]string{}
	n := 0
	for virt, content := range ov {
		real := filepath.Join(work, fmt.Sprintf("f%d.go", n))
		n++
		os.WriteFile(real, content, 0644)
		repl[virt] = real
	}
	// test driver
	var tb strings.Builder
	tb.WriteString("package " + name + "\n\nimport (\n\t\"encoding/json\"\n\t\"fmt\"\n\t\"os\"\n\t\"testing\"\n)\n\n")
	tb.WriteString("var verifEntryTable = map[string]func(){\n")
	seen := map[string]bool{}
	for _, e := range c.Entries {
		if !seen[e.Func] {
			seen[e.Func] = true
			fmt.Fprintf(&tb, "\t%q: %s,\n", e.Func, e.Func)
		}
	}
	tb.WriteString("}\n\n")
	tb.WriteString(`func TestVerifReplay(t *testing.T) {
	data, err := os.ReadFile(os.Getenv("VERIF_REPLAY_CASES"))
	if err != nil {
		t.Fatal(err)
	}
	var cases []struct {
		Entry  string         ` + "`json:\"entry\"`" + `
		Vector []uint64       ` + "`json:\"vector\"`" + `
		Params map[string]int ` + "`json:\"params\"`" + `
	}
	if err := json.Unmarshal(data, &cases); err != nil {
		t.Fatal(err)
	}
	for i, c := range cases {
		fn := verifEntryTable[c.Entry]
		if fn == nil {
			t.Fatalf("no entry %s", c.Entry)
		}
		res := verifRunNative(fn, c.Vector, c.Params)
		b, _ := json.Marshal(res)
		fmt.Printf("VERIF-CASE %d %s\n", i, b)
	}
}
`)
	testReal := filepath.Join(work, "driver_test.go")
	os.WriteFile(testReal, []byte(tb.String()), 0644)
	repl[filepath.Join(pkgDir(c), "zz_verif_driver_test.go")] = testReal
	ovb, _ := json.Marshal(map[string]interface{}{"Replace": repl})
	ovPath := filepath.Join(work, "overlay.json")
	os.WriteFile(ovPath, ovb, 0644)
	cb, _ := json.Marshal(cases)
	casesPath := filepath.Join(work, "cases.json")
	os.WriteFile(casesPath, cb, 0644)

	cmd := exec.Command("go", "test", "-vet=off", "-count=1", "-timeout", "600s", "-overlay", ovPath, "-run", "^TestVerifReplay$", "-v", ".")
	cmd.Dir = pkgDir(c)
	cmd.Env = append(os.Environ(), "GOFLAGS=-mod=mod", "GOPROXY=off", "GOSUMDB=off", "GOTOOLCHAIN=local", "VERIF_REPLAY_CASES="+casesPath)
	outb, err := cmd.CombinedOutput()
	if os.Getenv("VERIF_NATIVE_LOG") != "" {
		os.WriteFile(os.Getenv("VERIF_NATIVE_LOG"), outb, 0644)
	}
	outs := make([]nativeOut, len(cases))
	got := 0
	for _, line := range strings.Split(string(outb), "\n") {
		if idx := strings.Index(line, "VERIF-CASE "); idx >= 0 {
			rest := line[idx+len("VERIF-CASE "):]
			sp := strings.IndexByte(rest, ' ')
			if sp < 0 {
				continue
			}
			k, _ := strconv.Atoi(rest[:sp])
			if k >= 0 && k < len(outs) {
				if json.Unmarshal([]byte(rest[sp+1:]), &outs[k]) == nil {
					got++
				}
			}
		}
	}
	if got != len(cases) {
		tail := string(outb)
		if len(tail) > 1500 {
			tail = tail[len(tail)-1500:]
		}
		return nil, fmt.Errorf("native run produced %d/%d results (err=%v): %s", got, len(cases), err, tail)
	}
	return outs, nil
}

func cmdReplay(id, file string) int {
	c, dir, err := loadCheck(id)
	if err != nil {
		fmt.Println("cannot load check:", err)
		return 2
	}
	b, err := os.ReadFile(file)
	if err != nil {
		fmt.Println(err)
		return 2
	}
	var rc replayCase
	if err := json.Unmarshal(b, &rc); err != nil {
		fmt.Println(err)
		return 2
	}
	out, err := runNative(c, dir, []replayCase{rc})
	if err != nil {
		fmt.Println("native replay failed:", err)
		return 2
	}
	ok, detail := out[0].reproduces(rc.Label)
	fmt.Printf("replay %s entry=%s label=%s: %s\n", id, rc.Entry, rc.Label, detail)
	if ok {
		fmt.Printf("VIOLATION property=%s replay=%s\n", pid(id), file)
		return 1
	}
	return 0
}
