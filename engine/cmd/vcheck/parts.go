package main

import (
	"encoding/json"
	"os"
	"path/filepath"
)

// A property whose kernels live in several Go packages is registered as one check directory
// per package: checks/<ID>/check.json names the others in "parts". `vcheck run <ID>` runs
// them all; lines are printed under the property's id, the parts' evidence is embedded in
// evidence/<ID>.json, and the exit code is the worst of the runs (1 over 2 over 0).

var partOf = map[string]string{} // check directory name -> property id it reports under

func pid(id string) string {
	if p, ok := partOf[id]; ok {
		return p
	}
	return id
}

func runWithParts(id string, args []string) int {
	rc := cmdRun(id, args)
	c, _, err := loadCheck(id)
	if err != nil || len(c.Parts) == 0 {
		return rc
	}
	evPath := func(n string) string { return filepath.Join(verifDir, "evidence", n+".json") }
	var main map[string]interface{}
	if b, err := os.ReadFile(evPath(id)); err == nil {
		json.Unmarshal(b, &main)
	}
	for _, part := range c.Parts {
		partOf[part] = id
		r := cmdRun(part, args)
		switch {
		case r == 1 || rc == 1:
			rc = 1
		case r == 2 || rc == 2:
			rc = 2
		}
		var pe map[string]interface{}
		if b, err := os.ReadFile(evPath(part)); err == nil {
			json.Unmarshal(b, &pe)
		}
		os.Remove(evPath(part))
		if main != nil && pe != nil {
			cov, _ := main["coverage"].(map[string]interface{})
			if cov != nil {
				parts, _ := cov["parts"].([]interface{})
				pe["check_dir"] = part
				cov["parts"] = append(parts, pe)
				if w, ok := pe["wall_s"].(float64); ok {
					if mw, ok := main["wall_s"].(float64); ok {
						main["wall_s"] = mw + w
					}
				}
				if v, ok := pe["violations"].(float64); ok {
					if mv, ok := main["violations"].(float64); ok {
						main["violations"] = mv + v
					}
				}
			}
		}
	}
	if main != nil {
		b, _ := json.MarshalIndent(main, "", " ")
		os.WriteFile(evPath(id), append(b, '\n'), 0644)
	}
	return rc
}
