package main

import (
	"os"
	"runtime/pprof"
)

// startProfile writes a CPU profile to $VERIF_CPUPROF when set; returns a stop function.
func startProfile() func() {
	p := os.Getenv("VERIF_CPUPROF")
	if p == "" {
		return func() {}
	}
	f, err := os.Create(p)
	if err != nil {
		return func() {}
	}
	pprof.StartCPUProfile(f)
	return func() { pprof.StopCPUProfile(); f.Close() }
}
