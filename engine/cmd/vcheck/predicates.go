package main

import "verif/engine/sym"

// Named predicates over counterexamples, used by known_findings.json to pin a recorded
// finding to the specific family of inputs that exhibits it (so that any other violation
// of the same property is still reported).

var curViolation sym.Violation

var cexPredicates = map[string]func(names []string, vec []uint64) bool{}

// collect returns the values of all inputs called name, in order.
func collect(names []string, vec []uint64, name string) []uint64 {
	var out []uint64
	for k, n := range names {
		if n == name && k < len(vec) {
			out = append(out, vec[k])
		}
	}
	return out
}

func one(names []string, vec []uint64, name string) (uint64, bool) {
	v := collect(names, vec, name)
	if len(v) == 0 {
		return 0, false
	}
	return v[0], true
}

// twoKeys extracts the C09-style keys k1, k2 (length choices "k1.len"/"k2.len" hold len-1).
func twoKeys(names []string, vec []uint64) (k1, k2 []uint64, ok bool) {
	k1, k2 = collect(names, vec, "k1"), collect(names, vec, "k2")
	return k1, k2, len(k1) > 0 && len(k2) > 0
}

// extension: long = short + c + rest; returns c.
func extension(a, b []uint64) (c uint64, ok bool) {
	short, long := a, b
	if len(a) > len(b) {
		short, long = b, a
	}
	if len(long) <= len(short) {
		return 0, false
	}
	for i := range short {
		if short[i] != long[i] {
			return 0, false
		}
	}
	return long[len(short)], true
}

func init() {
	// one key is the other followed by '.' (and possibly more): GetV's reverse seek inside the
	// shorter key's prefix lands on the longer key's entries
	cexPredicates["c09_key_dot_extension"] = func(names []string, vec []uint64) bool {
		k1, k2, ok := twoKeys(names, vec)
		if !ok {
			return false
		}
		c, ok := extension(k1, k2)
		return ok && c == '.'
	}
	// one key is the other followed by a byte <= '.': Trash's prefix (cut before the dot)
	// matches the longer key's entries after visiting the shorter key
	cexPredicates["c09_key_low_extension"] = func(names []string, vec []uint64) bool {
		k1, k2, ok := twoKeys(names, vec)
		if !ok {
			return false
		}
		c, ok := extension(k1, k2)
		return ok && c <= '.'
	}
}
