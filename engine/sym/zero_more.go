package sym

func init() {
	for _, f := range []string{
		"hash/crc32.MakeTable",
	} {
		zeroResultFuncs[f] = true
	}
}
