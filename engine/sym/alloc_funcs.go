package sym

// allocResultFuncs: body-less constructors whose result is an opaque non-nil object.
var allocResultFuncs = map[string]bool{
	"github.com/golang/protobuf/proto.NewBuffer": true,
}

func init() {
	// everything of golang/protobuf that is not modelled explicitly (Marshal, Unmarshal,
	// Size, Clone, Equal are) is buffer plumbing
	noopPackages["github.com/golang/protobuf/proto"] = true
}
