package sym

// time: a harness-controlled clock. time.Time values are the zero struct; the instant is
// kept in a side table keyed by nothing (single global "now"): Unix()/UnixNano() read the
// clock value set by verifSetClock (default Params["now"] or 1600000000).

func (i *interpreter) clock() value {
	if v, ok := i.extra["clock"]; ok {
		return v
	}
	if n, ok := i.cfg.Params["now"]; ok {
		return int64(n)
	}
	return int64(1600000000)
}

func init() {
	externals["time.Now"] = func(fr *frame, a []value) value {
		// struct time.Time{wall uint64, ext int64, loc *Location}; ext carries the seconds
		return structure{uint64(0), fr.i.clock(), (*value)(nil)}
	}
	sec := func(a []value) value { return a[0].(structure)[1] }
	externals["(time.Time).Unix"] = func(fr *frame, a []value) value { return sec(a) }
	externals["(time.Time).UnixNano"] = func(fr *frame, a []value) value {
		s := sec(a)
		if c, ok := s.(int64); ok {
			return c * 1000000000
		}
		unsupported("UnixNano of symbolic clock")
		return nil
	}
	externals["(time.Time).IsZero"] = func(fr *frame, a []value) value {
		if c, ok := sec(a).(int64); ok {
			return c == 0
		}
		return false
	}
	externals["time.Since"] = func(fr *frame, a []value) value {
		i := fr.i
		now := i.clock()
		d := i.binop(tokenSUB, typInt64, typInt64, now, sec(a))
		if c, ok := d.(int64); ok {
			return c * 1000000000
		}
		unsupported("time.Since with symbolic clock")
		return nil
	}
	externals["time.Unix"] = func(fr *frame, a []value) value {
		return structure{uint64(0), a[0], (*value)(nil)}
	}
	// verifSetClock(sec int64): sets what time.Now/types.Now return from now on
	verifIntrinsics["verifSetClock"] = func(fr *frame, a []value) value {
		fr.i.extra["clock"] = a[0]
		return nil
	}
}
