package sym

// Path exploration by re-execution along decision prefixes.

import (
	"fmt"
	"go/types"
	"math/big"
	"os"
	"sort"
	"strings"
	"sync"
	"time"

	"golang.org/x/tools/go/ssa"
)

type Config struct {
	Solver       string // z3 | z3-new | cvc5
	CrossSolver  string // optional second solver for deciding (assertion) queries
	TimeoutMs    int
	IncTimeoutMs int // timeout of the incremental solver before the one-shot fallback
	MaxPaths     int
	MaxSteps     int64
	MaxDepth     int
	MaxAlloc     int
	MaxEnum      int
	Workers      int
	Params       map[string]int
	Trace        bool
	TraceInstr   bool
	MaxViolation int // stop recording after this many per label
	SampleEvery  int // keep a model sample every n completed paths
	MaxSamples   int
	InitPkgs     []*ssa.Package
	Overrides    map[string]*ssa.Function
	ConcreteVec  []uint64 // if non-nil: run once concretely with this nondet vector
}

func (c *Config) defaults() {
	if c.Solver == "" {
		c.Solver = "z3-new"
	}
	if c.TimeoutMs == 0 {
		c.TimeoutMs = 60000
	}
	if c.IncTimeoutMs == 0 {
		c.IncTimeoutMs = 1000
		if v, ok := c.Params["inc_timeout_ms"]; ok {
			c.IncTimeoutMs = v
		}
	}
	if c.MaxPaths == 0 {
		c.MaxPaths = 2000000
	}
	if c.MaxSteps == 0 {
		c.MaxSteps = 20000000
	}
	if c.MaxDepth == 0 {
		c.MaxDepth = 400
	}
	if c.MaxAlloc == 0 {
		c.MaxAlloc = 1 << 22
	}
	if c.MaxEnum == 0 {
		c.MaxEnum = 64
	}
	if c.Workers == 0 {
		c.Workers = 1
	}
	if c.MaxViolation == 0 {
		c.MaxViolation = 40
	}
	if c.SampleEvery == 0 {
		c.SampleEvery = 1
	}
	if c.MaxSamples == 0 {
		c.MaxSamples = 24
	}
}

type goMode int

const (
	goSync goMode = iota
	goDefer
	goDeferReverse
)

// shared holds immutable / synchronised state shared by all workers of a run.
type shared struct {
	prog      *ssa.Program
	fnNames   sync.Map
	pbMethods sync.Map
}

// State of one path execution.
type interpreter struct {
	sh                 *shared
	prog               *ssa.Program
	globals            map[*ssa.Global]*value
	pkgBodies          map[*ssa.Package]bool
	runtimeErrorString types.Type
	errorType          types.Type
	errorStringPtr     types.Type
	sizes              types.Sizes
	cfg                *Config
	overrides          map[string]*ssa.Function

	ts     *TermStore
	solver *Solver
	cross  *Solver
	w      *worker

	prefix    []int
	decisions []int
	forced    []bool
	pcLen     int
	pcTerms   []*Term
	steps     int64
	nondets   []nondetRec
	observes  []observeRec
	funcs     map[*ssa.Function]bool
	reached   map[string]int
	asserted  map[string]int

	model      Model
	modelValid bool
	uncertain  bool // a feasibility query came back unknown on this path
	preferOneShot bool

	mapOrderFork    bool
	goMode          goMode
	pending         []pendingGo
	goDepth         int
	bigs            map[*value]*Term // math/big.Int model: address of the struct -> Int term
	vecPos          int
	internalChoices int
	extra           map[string]interface{}
}

type nondetRec struct {
	Name     string
	Term     *Term // nil for concrete choices
	Conc     uint64
	Kind     string
	Internal bool // engine-only input (not consumed by the native harness)
	Bytes    int  // >0: wide variable standing for this many native byte inputs
}

type observeRec struct {
	Label string
	Vals  []value
}

func (i *interpreter) noteFunc(fn *ssa.Function) {
	if !i.funcs[fn] {
		i.funcs[fn] = true
	}
}

// ---------------------------------------------------------------- decisions

func (i *interpreter) assertPC(t *Term) {
	i.pcTerms = append(i.pcTerms, t)
	i.solver.Assert(t)
	if i.cross != nil {
		i.cross.Assert(t)
	}
	i.pcLen++
}

// decide forks on a symbolic condition.
func (i *interpreter) decide(c *Term) bool {
	if c.IsConst() {
		return c.Val == 1
	}
	if c.Sort.K != KBool {
		panic("decide: non-boolean term")
	}
	pos := len(i.decisions)
	if pos < len(i.prefix) {
		ch := i.prefix[pos]
		i.decisions = append(i.decisions, ch)
		if ch == 1 {
			i.assertPC(c)
		} else {
			i.assertPC(i.ts.Not(c))
		}
		i.modelValid = false
		return ch == 1
	}
	// new decision
	known := -1
	if i.modelValid {
		if v, ok := i.ts.Eval(c, i.model, map[int]*big.Int{}); ok {
			if v.Sign() != 0 {
				known = 1
			} else {
				known = 0
			}
		}
	}
	nc := i.ts.Not(c)
	var tFeas, fFeas Result
	var tModel, fModel Model
	switch known {
	case 1:
		tFeas, tModel = Sat, i.model
		fFeas, fModel = i.check(nc)
	case 0:
		fFeas, fModel = Sat, i.model
		tFeas, tModel = i.check(c)
	default:
		tFeas, tModel = i.check(c)
		if tFeas == Unsat && !i.uncertain {
			fFeas = Sat // pc is satisfiable (invariant), so the other side must be
		} else {
			fFeas, fModel = i.check(nc)
		}
	}
	if tFeas == Unknown || fFeas == Unknown {
		i.uncertain = true
		i.w.noteUnknown(fmt.Sprintf("branch feasibility unknown (%s)", i.solver.Name))
	}
	tOK, fOK := tFeas != Unsat, fFeas != Unsat
	switch {
	case tOK && fOK:
		alt := append(append([]int(nil), i.decisions...), 0)
		i.w.ex.push(alt)
		i.decisions = append(i.decisions, 1)
		i.assertPC(c)
		i.model, i.modelValid = tModel, tModel != nil
		return true
	case tOK:
		i.decisions = append(i.decisions, 1)
		i.assertPC(c)
		i.model, i.modelValid = tModel, tModel != nil
		return true
	case fOK:
		i.decisions = append(i.decisions, 0)
		i.assertPC(nc)
		i.model, i.modelValid = fModel, fModel != nil
		return false
	}
	panic(abortPath{abAssume, "both branch sides infeasible"})
}

// check asks whether pc ∧ extra is satisfiable; on Sat it returns a model of it.
func (i *interpreter) check(extra *Term) (Result, Model) {
	if i.preferOneShot && i.w.oneshot != nil {
		return i.checkOneShot(extra)
	}
	var res Result
	var kept bool
	if extra != nil {
		res, kept = i.solver.CheckKeep(extra)
	} else {
		res, kept = i.solver.CheckKeep()
	}
	if kept {
		m := i.readModel()
		i.solver.Pop()
		return res, m
	}
	if res == Unknown && i.w.oneshot != nil {
		// the incremental core is out of its depth on this path condition: stay one-shot
		return i.checkOneShot(extra)
	}
	return res, nil
}

// checkOneShot re-asks a query the incremental solver gave up on (short timeout) in a
// fresh non-incremental context: z3 then applies its full tactic pipeline (simplification,
// bit-blasting, SAT), which decides many bit-vector arithmetic queries that the
// incremental core does not.
func (i *interpreter) checkOneShot(extra *Term) (Result, Model) {
	s := i.w.oneshot
	s.HardReset()
	for _, t := range i.pcTerms {
		s.Assert(t)
	}
	if extra != nil {
		s.Assert(extra)
	}
	i.w.ex.mu.Lock()
	i.w.ex.rep.OneShot++
	i.w.ex.mu.Unlock()
	res := s.Check()
	if res != Sat {
		return res, nil
	}
	var vars []*Term
	for _, n := range i.nondets {
		if n.Term != nil {
			vars = append(vars, n.Term)
		}
	}
	vals, err := s.Values(vars)
	if err != nil {
		return Unknown, nil
	}
	m := Model{}
	for k, v := range vars {
		m[v.Name] = vals[k]
	}
	return Sat, m
}

func (i *interpreter) readModel() Model {
	var vars []*Term
	for _, n := range i.nondets {
		if n.Term != nil {
			vars = append(vars, n.Term)
		}
	}
	vals, err := i.solver.Values(vars)
	if err != nil {
		return nil
	}
	m := Model{}
	for k, v := range vars {
		m[v.Name] = vals[k]
	}
	return m
}

// choose makes an unconstrained n-way fork.
func (i *interpreter) choose(n int, what string) int {
	if n <= 1 {
		return 0
	}
	pos := len(i.decisions)
	if pos < len(i.prefix) {
		ch := i.prefix[pos]
		i.decisions = append(i.decisions, ch)
		return ch
	}
	for k := n - 1; k >= 1; k-- {
		alt := append(append([]int(nil), i.decisions...), k)
		i.w.ex.push(alt)
	}
	i.decisions = append(i.decisions, 0)
	return 0
}

// pickValue returns some feasible value of t under the path condition.
func (i *interpreter) pickValue(t *Term) (uint64, bool) {
	if i.modelValid {
		if v, ok := i.ts.Eval(t, i.model, map[int]*big.Int{}); ok {
			return v.Uint64(), true
		}
	}
	res, m := i.check(nil)
	if res != Sat || m == nil {
		if res == Unknown {
			i.uncertain = true
			i.w.noteUnknown("pickValue: solver unknown")
		}
		return 0, false
	}
	i.model, i.modelValid = m, true
	v, ok := i.ts.Eval(t, m, map[int]*big.Int{})
	if !ok {
		// term not evaluable from the variables alone (uninterpreted functions): ask directly
		r2, kept := i.solver.CheckKeep()
		if !kept {
			_ = r2
			return 0, false
		}
		defer i.solver.Pop()
		vals, err := i.solver.Values([]*Term{t})
		if err != nil {
			return 0, false
		}
		return vals[0].Uint64(), true
	}
	return v.Uint64(), true
}

// ---------------------------------------------------------------- explorer

type Violation struct {
	Label        string   `json:"label"`
	Msg          string   `json:"msg"`
	Vector       []uint64 `json:"vector"`
	Names        []string `json:"names"`
	Decisions    []int    `json:"decisions"`
	Confirmed    bool     `json:"model_confirmed"` // solver returned sat (not unknown)
	Internal     bool     `json:"uses_internal_choices"`
	InternalVals []string `json:"engine_only_inputs,omitempty"`
}

type Sample struct {
	Vector   []uint64 `json:"vector"`
	Names    []string `json:"names"`
	Observes []string `json:"observes"`
}

type Report struct {
	Entry        string
	Paths        int
	Completed    int
	Pruned       int
	Violations   []Violation
	Inconclusive map[string]int
	Reached      map[string]int
	Asserted     map[string]int
	Steps        int64
	Stats        SolverStats
	Funcs        map[string]bool
	Samples      []Sample
	Wall         time.Duration
	Truncated    bool
	OneShot      int
}

type Explorer struct {
	cfg    Config
	sh     *shared
	entry  *ssa.Function
	mu     sync.Mutex
	cond   *sync.Cond
	work   [][]int
	active int
	rep    Report
	vcount map[string]int
	done   bool
}

func (ex *Explorer) push(p []int) {
	ex.mu.Lock()
	ex.work = append(ex.work, p)
	ex.mu.Unlock()
	ex.cond.Signal()
}

func (ex *Explorer) pop() ([]int, bool) {
	ex.mu.Lock()
	defer ex.mu.Unlock()
	for {
		if ex.done {
			return nil, false
		}
		if n := len(ex.work); n > 0 {
			p := ex.work[n-1]
			ex.work = ex.work[:n-1]
			ex.active++
			return p, true
		}
		if ex.active == 0 {
			ex.done = true
			ex.cond.Broadcast()
			return nil, false
		}
		ex.cond.Wait()
	}
}

func (ex *Explorer) finish() {
	ex.mu.Lock()
	ex.active--
	if ex.active == 0 && len(ex.work) == 0 {
		ex.done = true
		ex.cond.Broadcast()
	}
	ex.mu.Unlock()
}

type worker struct {
	ex      *Explorer
	ts      *TermStore
	solver  *Solver
	oneshot *Solver
	cross   *Solver
	id     int
}

func (w *worker) noteUnknown(msg string) {
	w.ex.mu.Lock()
	w.ex.rep.Inconclusive[msg]++
	w.ex.mu.Unlock()
}

// Explore runs entry symbolically.
func Explore(prog *ssa.Program, entry *ssa.Function, cfg Config) (*Report, error) {
	cfg.defaults()
	ex := &Explorer{cfg: cfg, sh: &shared{prog: prog}, entry: entry, vcount: map[string]int{}}
	ex.cond = sync.NewCond(&ex.mu)
	ex.rep = Report{Entry: entry.String(), Inconclusive: map[string]int{}, Reached: map[string]int{},
		Asserted: map[string]int{}, Funcs: map[string]bool{}}
	ex.work = [][]int{{}}
	t0 := time.Now()
	var wg sync.WaitGroup
	errs := make(chan error, cfg.Workers)
	for k := 0; k < cfg.Workers; k++ {
		ts := NewTermStore()
		s, err := NewSolver(cfg.Solver, ts, cfg.IncTimeoutMs)
		if err != nil {
			return nil, err
		}
		w := &worker{ex: ex, ts: ts, solver: s, id: k}
		if os1, err := NewSolver(cfg.Solver, ts, cfg.TimeoutMs); err == nil {
			w.oneshot = os1
		}
		if cfg.CrossSolver != "" {
			c, err := NewSolver(cfg.CrossSolver, ts, cfg.TimeoutMs)
			if err != nil {
				return nil, err
			}
			w.cross = c
		}
		wg.Add(1)
		go func() {
			defer wg.Done()
			defer w.solver.Close()
			if w.oneshot != nil {
				defer w.oneshot.Close()
			}
			if w.cross != nil {
				defer w.cross.Close()
			}
			for {
				p, ok := ex.pop()
				if !ok {
					break
				}
				w.runPath(p)
				ex.finish()
			}
			ex.mu.Lock()
			st := &ex.rep.Stats
			for _, sv := range []*Solver{w.solver, w.cross, w.oneshot} {
				if sv == nil {
					continue
				}
				st.Queries += sv.Stats.Queries
				st.Sat += sv.Stats.Sat
				st.Unsat += sv.Stats.Unsat
				st.Unknown += sv.Stats.Unknown
				st.Errors += sv.Stats.Errors
				st.Time += sv.Stats.Time
				st.ValueTime += sv.Stats.ValueTime
				st.PopTime += sv.Stats.PopTime
				if st.FirstError == "" {
					st.FirstError = sv.Stats.FirstError
				}
				if sv.Stats.MaxQuery > st.MaxQuery {
					st.MaxQuery = sv.Stats.MaxQuery
				}
			}
			ex.mu.Unlock()
		}()
	}
	wg.Wait()
	close(errs)
	ex.rep.Wall = time.Since(t0)
	if ex.rep.Stats.Errors > 0 {
		ex.rep.Inconclusive[fmt.Sprintf("solver reported %d (error ...) lines, first: %s", ex.rep.Stats.Errors, ex.rep.Stats.FirstError)]++
	}
	return &ex.rep, nil
}

func (w *worker) newInterp(prefix []int) *interpreter {
	ex := w.ex
	prog := ex.sh.prog
	i := &interpreter{
		sh:        ex.sh,
		prog:      prog,
		globals:   make(map[*ssa.Global]*value),
		pkgBodies: make(map[*ssa.Package]bool),
		sizes:     &types.StdSizes{WordSize: 8, MaxAlign: 8},
		cfg:       &ex.cfg,
		overrides: ex.cfg.Overrides,
		ts:        w.ts,
		solver:    w.solver,
		cross:     w.cross,
		w:         w,
		prefix:    prefix,
		funcs:     make(map[*ssa.Function]bool),
		reached:   make(map[string]int),
		asserted:  make(map[string]int),
		bigs:      make(map[*value]*Term),
		extra:     make(map[string]interface{}),
	}
	if rp := prog.ImportedPackage("runtime"); rp != nil {
		if t := rp.Type("errorString"); t != nil {
			i.runtimeErrorString = t.Object().Type()
		}
	}
	if i.runtimeErrorString == nil {
		i.runtimeErrorString = types.Typ[types.String]
	}
	i.errorType = types.Universe.Lookup("error").Type()
	if ep := prog.ImportedPackage("errors"); ep != nil {
		if t := ep.Type("errorString"); t != nil {
			i.errorStringPtr = types.NewPointer(t.Object().Type())
		}
	}
	return i
}

func (w *worker) runPath(prefix []int) {
	ex := w.ex
	ex.mu.Lock()
	if ex.rep.Paths >= ex.cfg.MaxPaths {
		ex.rep.Truncated = true
		ex.rep.Inconclusive[fmt.Sprintf("path budget %d exhausted", ex.cfg.MaxPaths)]++
		ex.work = nil
		ex.mu.Unlock()
		return
	}
	ex.rep.Paths++
	npath := ex.rep.Paths
	ex.mu.Unlock()

	i := w.newInterp(prefix)
	w.ts.NonRange = map[int]bool{}
	w.ts.KnownHash = map[string]knownHash{} // per path: re-execution must be deterministic
	w.ts.MinSliceBits = 0
	if ex.cfg.Params["shorthash_injective"] == 1 {
		w.ts.MinSliceBits = 40
	}
	w.solver.Reset()
	w.solver.Push()
	if w.cross != nil {
		w.cross.Reset()
		w.cross.Push()
	}
	var outcome abortPath
	completed := false
	func() {
		defer func() {
			r := recover()
			if r == nil {
				return
			}
			switch r := r.(type) {
			case abortPath:
				outcome = r
			case targetPanic:
				// uncaught target panic: a violation (crash) with label "panic"
				msg := i.panicMessage(r)
				i.recordViolation("panic", msg)
				outcome = abortPath{abViolation, msg}
			default:
				outcome = abortPath{abEngine, fmt.Sprintf("%v", r)}
			}
		}()
		for _, p := range ex.cfg.InitPkgs {
			if f := p.Func("init"); f != nil && len(f.Blocks) > 0 {
				s0, t0 := i.steps, time.Now()
				call(i, nil, 0, f, nil)
				if initProf && npath == 1 {
					fmt.Fprintf(os.Stderr, "[initprof] %-50s steps=%d time=%v\n", p.Pkg.Path(), i.steps-s0, time.Since(t0))
				}
			}
		}
		call(i, nil, 0, ex.entry, nil)
		i.runPending()
		completed = true
	}()

	ex.mu.Lock()
	defer ex.mu.Unlock()
	ex.rep.Steps += i.steps
	for f := range i.funcs {
		ex.rep.Funcs[i.fnName(f)] = true
	}
	if completed || outcome.kind == abViolation || outcome.kind == abDone {
		for l, n := range i.reached {
			ex.rep.Reached[l] += n
		}
		for l, n := range i.asserted {
			ex.rep.Asserted[l] += n
		}
	}
	switch {
	case completed || outcome.kind == abDone:
		ex.rep.Completed++
		if i.uncertain {
			// feasibility of this path itself was never established
		}
		if len(ex.rep.Samples) < ex.cfg.MaxSamples && (npath%ex.cfg.SampleEvery == 0 || len(ex.rep.Samples) == 0) {
			ex.mu.Unlock()
			s, ok := i.sample()
			ex.mu.Lock()
			if ok {
				ex.rep.Samples = append(ex.rep.Samples, s)
			}
		}
	case outcome.kind == abAssume:
		ex.rep.Pruned++
	case outcome.kind == abViolation:
		ex.rep.Completed++
	case outcome.kind == abUnsupported:
		ex.rep.Inconclusive["unsupported: "+outcome.msg]++
	case outcome.kind == abBudget:
		ex.rep.Inconclusive["unwinding/budget: "+outcome.msg]++
	case outcome.kind == abEngine:
		ex.rep.Inconclusive["engine error: "+outcome.msg]++
	}
	if os.Getenv("VERIF_PROGRESS") != "" && npath%200 == 0 {
		fmt.Fprintf(os.Stderr, "[%s] paths=%d completed=%d pruned=%d work=%d viol=%d\n", ex.entry.Name(), ex.rep.Paths, ex.rep.Completed, ex.rep.Pruned, len(ex.work), len(ex.rep.Violations))
	}
}

func (i *interpreter) panicMessage(p targetPanic) string {
	switch v := p.v.(type) {
	case iface:
		switch s := v.v.(type) {
		case string:
			return s
		case *value:
			// error value: try errorString
			if s != nil {
				if st, ok := (*s).(structure); ok && len(st) > 0 {
					if msg, ok := st[0].(string); ok {
						return msg
					}
				}
			}
		}
		return fmt.Sprintf("%s: %s", v.t, toString(v.v))
	}
	return toString(p.v)
}

// vector returns the nondet values of the current model (solver scope must hold pc).
func (i *interpreter) vector(extra *Term) (vec []uint64, names []string, ok bool, confirmed bool) {
	var vars []*Term
	for _, n := range i.nondets {
		if n.Term != nil {
			vars = append(vars, n.Term)
		}
	}
	var vals []*big.Int
	if extra == nil && i.modelValid {
		for _, v := range vars {
			x, ok := i.model[v.Name]
			if !ok {
				x = big.NewInt(0)
			}
			vals = append(vals, x)
		}
	} else {
		res, m := i.check(extra)
		if res != Sat || m == nil {
			return nil, nil, false, res != Unknown
		}
		for _, v := range vars {
			x, ok := m[v.Name]
			if !ok {
				x = big.NewInt(0)
			}
			vals = append(vals, x)
		}
	}
	k := 0
	for _, n := range i.nondets {
		var val uint64
		if n.Term != nil {
			if n.Bytes > 0 {
				for _, b := range expandWide(vals[k], n.Bytes) {
					names = append(names, n.Name)
					vec = append(vec, b)
				}
				k++
				continue
			}
			val = vals[k].Uint64()
			k++
		} else {
			val = n.Conc
		}
		if n.Internal {
			continue
		}
		names = append(names, n.Name)
		vec = append(vec, val)
	}
	m := Model{}
	for k, v := range vars {
		m[v.Name] = vals[k]
	}
	i.model, i.modelValid = m, extra == nil
	return vec, names, true, true
}

func (i *interpreter) sample() (Sample, bool) {
	vec, names, ok, _ := i.vector(nil)
	if !ok {
		return Sample{}, false
	}
	s := Sample{Vector: vec, Names: names}
	memo := map[int]*big.Int{}
	for _, o := range i.observes {
		s.Observes = append(s.Observes, i.renderObserve(o, memo))
	}
	return s, true
}

func (i *interpreter) renderObserve(o observeRec, memo map[int]*big.Int) string {
	var b strings.Builder
	b.WriteString(o.Label)
	b.WriteByte('=')
	for k, v := range o.Vals {
		if k > 0 {
			b.WriteByte(',')
		}
		b.WriteString(i.renderVal(v, memo))
	}
	return b.String()
}

func (i *interpreter) renderVal(v value, memo map[int]*big.Int) string {
	switch v := v.(type) {
	case iface:
		return i.renderVal(v.v, memo)
	case *Term:
		r, ok := i.ts.Eval(v, i.model, memo)
		if !ok {
			return "?"
		}
		if v.Sort.K == KBool {
			if r.Sign() != 0 {
				return "true"
			}
			return "false"
		}
		return r.String()
	case bool:
		return fmt.Sprint(v)
	case int, int8, int16, int32, int64:
		return fmt.Sprint(asInt64(v))
	case uint, uint8, uint16, uint32, uint64, uintptr:
		return fmt.Sprint(uint64(asInt64(v)))
	case string:
		return fmt.Sprintf("%x", v)
	case symstr:
		return i.renderBytes([]value(v), memo)
	case []value:
		return i.renderBytes(v, memo)
	case nil:
		return "nil"
	}
	return fmt.Sprintf("<%T>", v)
}

func (i *interpreter) renderBytes(bs []value, memo map[int]*big.Int) string {
	var b strings.Builder
	for _, e := range bs {
		switch e := e.(type) {
		case uint8:
			fmt.Fprintf(&b, "%02x", e)
		case *Term:
			r, ok := i.ts.Eval(e, i.model, memo)
			if !ok {
				b.WriteString("??")
			} else {
				fmt.Fprintf(&b, "%02x", r.Uint64()&0xff)
			}
		default:
			b.WriteString(i.renderVal(e, memo))
			b.WriteByte(';')
		}
	}
	return b.String()
}

// recordViolation is called with the solver holding pc (and the failing condition already
// asserted by the caller when it is symbolic).
func (i *interpreter) recordViolation(label, msg string) {
	ex := i.w.ex
	ex.mu.Lock()
	n := ex.vcount[label]
	ex.vcount[label]++
	ex.mu.Unlock()
	if n >= ex.cfg.MaxViolation {
		return
	}
	vec, names, ok, confirmed := i.vector(nil)
	v := Violation{Label: label, Msg: msg, Vector: vec, Names: names, Decisions: append([]int(nil), i.decisions...), Confirmed: ok && confirmed}
	v.Internal = i.internalChoices > 0
	if !ok {
		ex.mu.Lock()
		ex.vcount[label]--
		if confirmed {
			// pc ∧ ¬assert unsat after all: no violation on this path
		} else {
			ex.rep.Inconclusive["assertion "+label+": solver unknown"]++
		}
		ex.mu.Unlock()
		return
	}
	ex.mu.Lock()
	ex.rep.Violations = append(ex.rep.Violations, v)
	ex.mu.Unlock()
}

func (r *Report) SortedFuncs() []string {
	var out []string
	for f := range r.Funcs {
		out = append(out, f)
	}
	sort.Strings(out)
	return out
}
