package sym

import (
	"encoding/base64"
	"net"
	"net/textproto"
)

type b64rec struct {
	enc []value
	dec []value
}

func sameVals(a, b []value) bool {
	if len(a) != len(b) {
		return false
	}
	for k := range a {
		if a[k] != b[k] {
			return false
		}
	}
	return true
}

func init() {
	ipOf := func(v value) net.IP {
		bs, _ := v.([]value)
		if bs == nil {
			return nil
		}
		b, ok := concreteBytes(bs)
		if !ok {
			unsupported("net.IP with symbolic bytes")
		}
		return net.IP(b)
	}
	externals["net.ParseIP"] = func(fr *frame, a []value) value {
		s, ok := a[0].(string)
		if !ok {
			unsupported("net.ParseIP of a symbolic string")
		}
		ip := net.ParseIP(s)
		if ip == nil {
			return []value(nil)
		}
		return bytesToVals(ip)
	}
	externals["(net.IP).IsLoopback"] = func(fr *frame, a []value) value { return ipOf(a[0]).IsLoopback() }
	externals["(net.IP).To4"] = func(fr *frame, a []value) value {
		r := ipOf(a[0]).To4()
		if r == nil {
			return []value(nil)
		}
		return bytesToVals(r)
	}
	externals["(net.IP).String"] = func(fr *frame, a []value) value { return ipOf(a[0]).String() }
	externals["net.SplitHostPort"] = func(fr *frame, a []value) value {
		s, ok := a[0].(string)
		if !ok {
			unsupported("net.SplitHostPort of a symbolic string")
		}
		h, p, err := net.SplitHostPort(s)
		if err != nil {
			return tuple{"", "", fr.i.mkError(err.Error())}
		}
		return tuple{h, p, iface{}}
	}
	// http.Header is map[string][]string
	externals["(net/http.Header).Get"] = func(fr *frame, a []value) value {
		m, _ := a[0].(*smap)
		if m == nil {
			return ""
		}
		k, ok := a[1].(string)
		if !ok {
			unsupported("http.Header.Get with symbolic key")
		}
		v, found := m.lookup(fr.i, textproto.CanonicalMIMEHeaderKey(k))
		if !found {
			return ""
		}
		vs, _ := v.([]value)
		if len(vs) == 0 {
			return ""
		}
		return vs[0]
	}
	// base64: concrete -> real; symbolic encode -> table lookups; symbolic decode -> only of
	// strings produced by the modelled encoder on this path (provenance by content)
	encTable := func(a []value) string {
		p := a[0].(*value)
		st := (*p).(structure)
		arr, _ := st[0].(array)
		b, _ := concreteBytes([]value(arr))
		return string(b)
	}
	externals["(*encoding/base64.Encoding).EncodeToString"] = func(fr *frame, a []value) value {
		i := fr.i
		src := a[1].([]value)
		tbl := encTable(a)
		if conc, ok := concreteBytes(src); ok {
			return base64.NewEncoding(tbl).EncodeToString(conc)
		}
		ts := i.ts
		var out []value
		look := func(t *Term) value { // 6-bit term -> alphabet char
			res := ts.BVConst(uint64(tbl[63]), 8)
			for k := 62; k >= 0; k-- {
				res = ts.Ite(ts.Eq(t, ts.BVConst(uint64(k), 6)), ts.BVConst(uint64(tbl[k]), 8), res)
			}
			return i.norm(res, typUint8)
		}
		for k := 0; k < len(src); k += 3 {
			var grp []value
			n := 0
			for j := 0; j < 3; j++ {
				if k+j < len(src) {
					grp = append(grp, src[k+j])
					n++
				} else {
					grp = append(grp, uint8(0))
				}
			}
			t := i.bytesTerm(grp) // 24 bits
			for j := 0; j < 4; j++ {
				if j <= n {
					out = append(out, look(ts.Extract(t, 23-6*j, 18-6*j)))
				} else {
					out = append(out, uint8('='))
				}
			}
		}
		recs, _ := i.extra["b64"].([]b64rec)
		i.extra["b64"] = append(recs, b64rec{enc: append([]value(nil), out...), dec: append([]value(nil), src...)})
		return mkStr(out)
	}
	externals["(*encoding/base64.Encoding).DecodeString"] = func(fr *frame, a []value) value {
		i := fr.i
		tbl := encTable(a)
		if s, ok := a[1].(string); ok {
			b, err := base64.NewEncoding(tbl).DecodeString(s)
			if err != nil {
				return tuple{[]value(nil), i.mkError(err.Error())}
			}
			if len(b) == 0 {
				return tuple{[]value{}, iface{}}
			}
			return tuple{bytesToVals(b), iface{}}
		}
		in := strVals(a[1])
		recs, _ := i.extra["b64"].([]b64rec)
		for _, r := range recs {
			if sameVals(r.enc, in) {
				return tuple{append([]value(nil), r.dec...), iface{}}
			}
		}
		unsupported("base64 decode of a symbolic string that the modelled encoder did not produce")
		return nil
	}
}
