package sym

// Incremental SMT solver process (z3 -in / z3-new -in / cvc5 --incremental).

import (
	"bufio"
	"fmt"
	"io"
	"math/big"
	"os"
	"os/exec"
	"strings"
	"time"
)

type Result int

const (
	Unsat Result = iota
	Sat
	Unknown
)

func (r Result) String() string { return [...]string{"unsat", "sat", "unknown"}[r] }

type SolverStats struct {
	Queries  int
	Sat      int
	Unsat    int
	Unknown  int
	Errors   int
	Time     time.Duration
	MaxQuery time.Duration
	ValueTime, PopTime time.Duration
	FirstError         string
}

type Solver struct {
	Name      string
	cmd       *exec.Cmd
	in        io.WriteCloser
	out       *bufio.Reader
	ts        *TermStore
	defined   map[int]bool    // term ids defined in current scopes
	declared  map[string]bool // var / uf names declared in current scopes
	log       []scopeLog      // per scope: what to undo on pop
	Stats     SolverStats
	TimeoutMs int
	trace     io.Writer
	dead      bool
}

type scopeLog struct {
	ids   []int
	names []string
}

func solverArgv(name string, timeoutMs int) []string {
	switch name {
	case "z3", "z3-new":
		return []string{name, "-in", fmt.Sprintf("-t:%d", timeoutMs)}
	case "cvc5":
		return []string{"cvc5", "--incremental", "--lang=smt2", "--produce-models", fmt.Sprintf("--tlimit-per=%d", timeoutMs)}
	}
	return []string{name, "-in"}
}

func NewSolver(name string, ts *TermStore, timeoutMs int) (*Solver, error) {
	argv := solverArgv(name, timeoutMs)
	cmd := exec.Command(argv[0], argv[1:]...)
	in, err := cmd.StdinPipe()
	if err != nil {
		return nil, err
	}
	outp, err := cmd.StdoutPipe()
	if err != nil {
		return nil, err
	}
	cmd.Stderr = nil
	if err := cmd.Start(); err != nil {
		return nil, err
	}
	s := &Solver{Name: name, cmd: cmd, in: in, out: bufio.NewReaderSize(outp, 1<<16), ts: ts,
		defined: map[int]bool{}, declared: map[string]bool{}, log: []scopeLog{{}}, TimeoutMs: timeoutMs}
	if f := os.Getenv("VERIF_SMT_TRACE"); f != "" {
		w, _ := os.OpenFile(f, os.O_CREATE|os.O_WRONLY|os.O_APPEND, 0644)
		s.trace = w
	}
	s.send("(set-option :produce-models true)")
	if name == "cvc5" {
		s.send("(set-logic ALL)")
	}
	return s, nil
}

func (s *Solver) Close() {
	if s.cmd != nil && s.cmd.Process != nil {
		s.in.Close()
		s.cmd.Process.Kill()
		s.cmd.Wait()
	}
}

func (s *Solver) send(line string) {
	if s.trace != nil {
		fmt.Fprintln(s.trace, line)
	}
	if _, err := io.WriteString(s.in, line+"\n"); err != nil {
		s.dead = true
	}
}

func (s *Solver) readLine() string {
	l, err := s.out.ReadString('\n')
	if err != nil {
		s.dead = true
		return "(error \"solver died\")"
	}
	l = strings.TrimSpace(l)
	if s.trace != nil {
		fmt.Fprintln(s.trace, "; <- "+l)
	}
	return l
}

func (s *Solver) Push() {
	s.send("(push 1)")
	s.log = append(s.log, scopeLog{})
}

func (s *Solver) Pop() {
	defer func(t0 time.Time) { s.Stats.PopTime += time.Since(t0) }(time.Now())
	s.send("(pop 1)")
	top := s.log[len(s.log)-1]
	s.log = s.log[:len(s.log)-1]
	for _, id := range top.ids {
		delete(s.defined, id)
	}
	for _, n := range top.names {
		delete(s.declared, n)
	}
}

// HardReset clears the solver completely (declarations included): the next check-sat runs
// in non-incremental mode.
func (s *Solver) HardReset() {
	s.send("(reset)")
	s.defined = map[int]bool{}
	s.declared = map[string]bool{}
	s.log = []scopeLog{{}}
	s.send("(set-option :produce-models true)")
	if s.Name == "cvc5" {
		s.send("(set-logic ALL)")
	}
}

// Reset pops to the base scope.
func (s *Solver) Reset() {
	for len(s.log) > 1 {
		s.Pop()
	}
}

func (s *Solver) declare(name string, line string) {
	if s.declared[name] {
		return
	}
	s.declared[name] = true
	top := &s.log[len(s.log)-1]
	top.names = append(top.names, name)
	s.send(line)
}

// define makes sure t and everything below it is known to the solver, returns its reference.
func (s *Solver) define(t *Term) string {
	switch t.Op {
	case OConst:
		return t.constSMT()
	case OVar:
		s.declare(t.Name, "(declare-const "+t.Name+" "+t.Sort.SMT()+")")
		return t.Name
	}
	if s.defined[t.ID] {
		return t.ref()
	}
	for _, a := range t.Args {
		s.define(a)
	}
	if t.Op == OApp {
		sig := s.ts.ufs[t.Name]
		var b strings.Builder
		b.WriteString("(declare-fun " + t.Name + " (")
		for i, a := range sig.args {
			if i > 0 {
				b.WriteByte(' ')
			}
			b.WriteString(a.SMT())
		}
		b.WriteString(") " + sig.res.SMT() + ")")
		s.declare(t.Name, b.String())
	}
	s.send("(define-fun " + t.ref() + " () " + t.Sort.SMT() + " " + t.body() + ")")
	s.defined[t.ID] = true
	top := &s.log[len(s.log)-1]
	top.ids = append(top.ids, t.ID)
	return t.ref()
}

func (s *Solver) Assert(t *Term) {
	if t.IsTrue() {
		return
	}
	r := s.define(t)
	s.send("(assert " + r + ")")
}

// Check runs check-sat under the current assertions plus extra (scoped).
func (s *Solver) Check(extra ...*Term) Result {
	if s.dead {
		s.Stats.Errors++
		if s.Stats.FirstError == "" {
			s.Stats.FirstError = s.Name + ": solver process died"
		}
		return Unknown
	}
	scoped := len(extra) > 0
	if scoped {
		s.Push()
		for _, e := range extra {
			s.Assert(e)
		}
	}
	t0 := time.Now()
	s.send("(check-sat)")
	res := s.readResult()
	d := time.Since(t0)
	s.Stats.Queries++
	s.Stats.Time += d
	if d > s.Stats.MaxQuery {
		s.Stats.MaxQuery = d
	}
	switch res {
	case Sat:
		s.Stats.Sat++
	case Unsat:
		s.Stats.Unsat++
	default:
		s.Stats.Unknown++
	}
	if scoped {
		s.Pop()
	}
	return res
}

// CheckKeep is like Check(extra...) but leaves the extra scope open on Sat so
// that a model can be read; the caller must call Pop() afterwards when kept=true.
func (s *Solver) CheckKeep(extra ...*Term) (res Result, kept bool) {
	s.Push()
	for _, e := range extra {
		s.Assert(e)
	}
	t0 := time.Now()
	s.send("(check-sat)")
	res = s.readResult()
	d := time.Since(t0)
	s.Stats.Queries++
	s.Stats.Time += d
	if d > s.Stats.MaxQuery {
		s.Stats.MaxQuery = d
	}
	switch res {
	case Sat:
		s.Stats.Sat++
		return res, true
	case Unsat:
		s.Stats.Unsat++
	default:
		s.Stats.Unknown++
	}
	s.Pop()
	return res, false
}

func (s *Solver) readResult() Result {
	for {
		l := s.readLine()
		switch {
		case l == "sat":
			return Sat
		case l == "unsat":
			return Unsat
		case l == "unknown" || l == "timeout":
			return Unknown
		case strings.HasPrefix(l, "(error"):
			s.Stats.Errors++
			if s.Stats.FirstError == "" {
				s.Stats.FirstError = s.Name + ": " + l
			}
			if s.dead {
				return Unknown
			}
			// keep reading: an answer line still follows, but it is not trusted
			for {
				l2 := s.readLine()
				if l2 == "sat" || l2 == "unsat" || l2 == "unknown" || s.dead {
					return Unknown
				}
			}
		case l == "":
			if s.dead {
				return Unknown
			}
		default:
			// unexpected chatter
			if s.dead {
				return Unknown
			}
		}
	}
}

// Values reads the model value of each term (after a Sat answer with the scope still open).
func (s *Solver) Values(terms []*Term) ([]*big.Int, error) {
	out := make([]*big.Int, len(terms))
	const chunk = 64
	for base := 0; base < len(terms); base += chunk {
		end := base + chunk
		if end > len(terms) {
			end = len(terms)
		}
		var b strings.Builder
		b.WriteString("(get-value (")
		idx := []int{}
		for i := base; i < end; i++ {
			t := terms[i]
			if t.IsConst() {
				out[i] = constBig(t)
				continue
			}
			b.WriteString(s.define(t))
			b.WriteByte(' ')
			idx = append(idx, i)
		}
		b.WriteString("))")
		if len(idx) == 0 {
			continue
		}
		t0 := time.Now()
		s.send(b.String())
		txt, err := s.readSexp()
		s.Stats.ValueTime += time.Since(t0)
		if err != nil {
			return nil, err
		}
		vals, err := parseGetValue(txt)
		if err != nil {
			return nil, fmt.Errorf("get-value: %v in %q", err, txt)
		}
		if len(vals) != len(idx) {
			return nil, fmt.Errorf("get-value: %d values for %d terms: %q", len(vals), len(idx), txt)
		}
		for j, i := range idx {
			out[i] = vals[j]
		}
	}
	return out, nil
}

// readSexp reads one balanced s-expression (possibly over several lines).
func (s *Solver) readSexp() (string, error) {
	var b strings.Builder
	depth := 0
	started := false
	for {
		l := s.readLine()
		if s.dead {
			return "", fmt.Errorf("solver died")
		}
		if !started && strings.HasPrefix(l, "(error") {
			s.Stats.Errors++
			if s.Stats.FirstError == "" {
				s.Stats.FirstError = s.Name + " (get-value): " + l
			}
			return "", fmt.Errorf("solver error: %s", l)
		}
		for _, c := range l {
			if c == '(' {
				depth++
				started = true
			} else if c == ')' {
				depth--
			}
		}
		b.WriteString(l)
		b.WriteByte(' ')
		if started && depth <= 0 {
			return b.String(), nil
		}
	}
}

// parseGetValue parses "((t1 v1) (t2 v2) ...)" returning values in order.
func parseGetValue(txt string) ([]*big.Int, error) {
	toks := tokenize(txt)
	pos := 0
	var parse func() (interface{}, error)
	parse = func() (interface{}, error) {
		if pos >= len(toks) {
			return nil, fmt.Errorf("eof")
		}
		t := toks[pos]
		pos++
		if t == "(" {
			var l []interface{}
			for pos < len(toks) && toks[pos] != ")" {
				x, err := parse()
				if err != nil {
					return nil, err
				}
				l = append(l, x)
			}
			pos++
			return l, nil
		}
		return t, nil
	}
	top, err := parse()
	if err != nil {
		return nil, err
	}
	lst, ok := top.([]interface{})
	if !ok {
		return nil, fmt.Errorf("not a list")
	}
	var out []*big.Int
	for _, p := range lst {
		pair, ok := p.([]interface{})
		if !ok || len(pair) != 2 {
			return nil, fmt.Errorf("bad pair")
		}
		v, err := sexpValue(pair[1])
		if err != nil {
			return nil, err
		}
		out = append(out, v)
	}
	return out, nil
}

func sexpValue(x interface{}) (*big.Int, error) {
	switch x := x.(type) {
	case string:
		switch {
		case x == "true":
			return big.NewInt(1), nil
		case x == "false":
			return big.NewInt(0), nil
		case strings.HasPrefix(x, "#x"):
			v, ok := new(big.Int).SetString(x[2:], 16)
			if !ok {
				return nil, fmt.Errorf("bad hex %s", x)
			}
			return v, nil
		case strings.HasPrefix(x, "#b"):
			v, ok := new(big.Int).SetString(x[2:], 2)
			if !ok {
				return nil, fmt.Errorf("bad bin %s", x)
			}
			return v, nil
		default:
			v, ok := new(big.Int).SetString(x, 10)
			if !ok {
				return nil, fmt.Errorf("bad value %s", x)
			}
			return v, nil
		}
	case []interface{}:
		if len(x) == 2 {
			if s, ok := x[0].(string); ok && s == "-" {
				v, err := sexpValue(x[1])
				if err != nil {
					return nil, err
				}
				return new(big.Int).Neg(v), nil
			}
		}
		if len(x) == 3 {
			if s, ok := x[0].(string); ok && s == "_" {
				if bv, ok := x[1].(string); ok && strings.HasPrefix(bv, "bv") {
					v, ok := new(big.Int).SetString(bv[2:], 10)
					if ok {
						return v, nil
					}
				}
			}
		}
	}
	return nil, fmt.Errorf("unsupported value %v", x)
}

func tokenize(s string) []string {
	var toks []string
	i := 0
	for i < len(s) {
		c := s[i]
		switch {
		case c == '(' || c == ')':
			toks = append(toks, string(c))
			i++
		case c == ' ' || c == '\t' || c == '\n' || c == '\r':
			i++
		case c == '|':
			j := i + 1
			for j < len(s) && s[j] != '|' {
				j++
			}
			toks = append(toks, s[i:j+1])
			i = j + 1
		default:
			j := i
			for j < len(s) && !strings.ContainsRune("() \t\n\r", rune(s[j])) {
				j++
			}
			toks = append(toks, s[i:j])
			i = j
		}
	}
	return toks
}
