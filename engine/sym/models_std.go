package sym

// Models of body-less standard-library leaves (assembly / runtime functions) that the
// interpreted pure-Go standard packages call, plus sync/atomic/time/fmt stand-ins.

import (
	"fmt"
	"go/types"
	"strings"
)

func init() {
	intT := types.Typ[types.Int]
	// ---- internal/bytealg
	externals["internal/bytealg.Compare"] = func(fr *frame, a []value) value {
		i := fr.i
		xs, ys := a[0].([]value), a[1].([]value)
		return i.norm(i.strCompare(xs, ys), intT)
	}
	externals["internal/bytealg.Equal"] = func(fr *frame, a []value) value {
		return fr.i.strEq(mkStr(a[0].([]value)), mkStr(a[1].([]value)))
	}
	indexByte := func(fr *frame, bs []value, c value) value {
		i := fr.i
		for k, b := range bs {
			if i.truth(i.eqv(types.Typ[types.Uint8], b, c)) {
				return k
			}
		}
		return -1
	}
	externals["internal/bytealg.IndexByte"] = func(fr *frame, a []value) value {
		return indexByte(fr, a[0].([]value), a[1])
	}
	externals["internal/bytealg.IndexByteString"] = func(fr *frame, a []value) value {
		return indexByte(fr, strVals(a[0]), a[1])
	}
	count := func(fr *frame, bs []value, c value) value {
		i := fr.i
		n := 0
		for _, b := range bs {
			if i.truth(i.eqv(types.Typ[types.Uint8], b, c)) {
				n++
			}
		}
		return n
	}
	externals["internal/bytealg.Count"] = func(fr *frame, a []value) value { return count(fr, a[0].([]value), a[1]) }
	externals["internal/bytealg.CountString"] = func(fr *frame, a []value) value { return count(fr, strVals(a[0]), a[1]) }
	index := func(fr *frame, hay, needle []value) value {
		i := fr.i
		for k := 0; k+len(needle) <= len(hay); k++ {
			if i.truth(i.strEq(mkStr(hay[k:k+len(needle)]), mkStr(needle))) {
				return k
			}
		}
		return -1
	}
	externals["internal/bytealg.Index"] = func(fr *frame, a []value) value { return index(fr, a[0].([]value), a[1].([]value)) }
	externals["internal/bytealg.IndexString"] = func(fr *frame, a []value) value { return index(fr, strVals(a[0]), strVals(a[1])) }
	externals["internal/bytealg.MakeNoZero"] = func(fr *frame, a []value) value {
		n := int(asInt64(a[0]))
		out := make([]value, n)
		for k := range out {
			out[k] = uint8(0)
		}
		return out
	}
	// strings.Index etc. go through bytealg.MaxLen / Cutover paths guarded by these
	externals["internal/bytealg.Cutover"] = func(fr *frame, a []value) value { return 1 << 30 }
	externals["internal/bytealg.IndexRabinKarp"] = nil
	delete(externals, "internal/bytealg.IndexRabinKarp")

	// ---- runtime
	externals["runtime.NumCPU"] = func(fr *frame, a []value) value {
		if n, ok := fr.i.extra["ncpu"].(int); ok {
			return n
		}
		if n, ok := fr.i.cfg.Params["ncpu"]; ok {
			return n
		}
		return 4
	}
	verifIntrinsics["verifSetNumCPU"] = func(fr *frame, a []value) value {
		fr.i.extra["ncpu"] = int(asInt64(a[0]))
		return nil
	}
	externals["runtime.GOMAXPROCS"] = func(fr *frame, a []value) value { return 4 }
	externals["runtime.Gosched"] = func(fr *frame, a []value) value { return nil }
	externals["runtime.KeepAlive"] = func(fr *frame, a []value) value { return nil }
	externals["runtime.GC"] = func(fr *frame, a []value) value { return nil }
	externals["runtime.SetFinalizer"] = func(fr *frame, a []value) value { return nil }
	externals["runtime.Caller"] = func(fr *frame, a []value) value { return tuple{uintptr(0), "?", 0, false} }

	// ---- sync: sequential semantics
	nop := func(fr *frame, a []value) value { return nil }
	for _, m := range []string{"Lock", "Unlock"} {
		externals["(*sync.Mutex)."+m] = nop
		externals["(*sync.RWMutex)."+m] = nop
	}
	externals["(*sync.Mutex).TryLock"] = func(fr *frame, a []value) value { return true }
	externals["(*sync.RWMutex).RLock"] = nop
	externals["(*sync.RWMutex).RUnlock"] = nop
	externals["(*sync.WaitGroup).Add"] = nop
	externals["(*sync.WaitGroup).Done"] = nop
	externals["(*sync.WaitGroup).Wait"] = func(fr *frame, a []value) value {
		fr.i.runPending()
		return nil
	}
	externals["(*sync.Once).Do"] = func(fr *frame, a []value) value {
		p := a[0].(*value)
		st := (*p).(structure)
		if done, ok := st[0].(bool); ok && done {
			return nil
		}
		st[0] = true
		call(fr.i, fr, 0, a[1], nil)
		return nil
	}
	externals["(*sync.Pool).Get"] = func(fr *frame, a []value) value {
		p := a[0].(*value)
		st := (*p).(structure)
		// field "New" is the last field
		newf := st[len(st)-1]
		switch f := newf.(type) {
		case *closure:
			return call(fr.i, fr, 0, f, nil)
		default:
			if isNilRef(newf) {
				return iface{}
			}
			return call(fr.i, fr, 0, newf, nil)
		}
	}
	externals["(*sync.Pool).Put"] = nop

	// ---- sync/atomic on plain words
	atomicLoad := func(fr *frame, a []value) value {
		p := a[0].(*value)
		if p == nil {
			fr.i.runtimePanic("invalid memory address or nil pointer dereference")
		}
		return *p
	}
	atomicStore := func(fr *frame, a []value) value {
		p := a[0].(*value)
		if p == nil {
			fr.i.runtimePanic("invalid memory address or nil pointer dereference")
		}
		fr.i.noteWatch(p, a[1])
		*p = a[1]
		return nil
	}
	for _, t := range []string{"Int32", "Int64", "Uint32", "Uint64", "Uintptr", "Pointer"} {
		externals["sync/atomic.Load"+t] = atomicLoad
		externals["sync/atomic.Store"+t] = atomicStore
	}
	for _, t := range []struct {
		n string
		t types.Type
	}{{"Int32", types.Typ[types.Int32]}, {"Int64", types.Typ[types.Int64]}, {"Uint32", types.Typ[types.Uint32]}, {"Uint64", types.Typ[types.Uint64]}} {
		tt := t.t
		externals["sync/atomic.Add"+t.n] = func(fr *frame, a []value) value {
			p := a[0].(*value)
			nv := fr.i.binop(tokenADD, tt, tt, *p, a[1])
			fr.i.noteWatch(p, nv)
			*p = nv
			return nv
		}
		externals["sync/atomic.CompareAndSwap"+t.n] = func(fr *frame, a []value) value {
			p := a[0].(*value)
			if fr.i.truth(fr.i.eqv(tt, *p, a[1])) {
				fr.i.noteWatch(p, a[2])
				*p = a[2]
				return true
			}
			return false
		}
		externals["sync/atomic.Swap"+t.n] = func(fr *frame, a []value) value {
			p := a[0].(*value)
			old := *p
			fr.i.noteWatch(p, a[1])
			*p = a[1]
			return old
		}
	}
	// atomic.Int32/Int64/Bool/Value types (struct with field v last)
	for _, t := range []struct {
		n string
		t types.Type
	}{{"Int32", types.Typ[types.Int32]}, {"Int64", types.Typ[types.Int64]}, {"Uint32", types.Typ[types.Uint32]}, {"Uint64", types.Typ[types.Uint64]}} {
		tt := t.t
		cell := func(a []value) *value {
			st := (*(a[0].(*value))).(structure)
			return &st[len(st)-1]
		}
		externals["(*sync/atomic."+t.n+").Load"] = func(fr *frame, a []value) value { return *cell(a) }
		externals["(*sync/atomic."+t.n+").Store"] = func(fr *frame, a []value) value { *cell(a) = a[1]; return nil }
		externals["(*sync/atomic."+t.n+").Add"] = func(fr *frame, a []value) value {
			c := cell(a)
			*c = fr.i.binop(tokenADD, tt, tt, *c, a[1])
			return *c
		}
		externals["(*sync/atomic."+t.n+").CompareAndSwap"] = func(fr *frame, a []value) value {
			c := cell(a)
			if fr.i.truth(fr.i.eqv(tt, *c, a[1])) {
				*c = a[2]
				return true
			}
			return false
		}
	}
	externals["(*sync/atomic.Bool).Load"] = func(fr *frame, a []value) value {
		st := (*(a[0].(*value))).(structure)
		v := st[len(st)-1]
		if u, ok := v.(uint32); ok {
			return u != 0
		}
		return v
	}
	externals["(*sync/atomic.Bool).Store"] = func(fr *frame, a []value) value {
		st := (*(a[0].(*value))).(structure)
		st[len(st)-1] = a[1]
		return nil
	}
	externals["(*sync/atomic.Value).Load"] = func(fr *frame, a []value) value {
		st := (*(a[0].(*value))).(structure)
		if v, ok := st[0].(iface); ok {
			return v
		}
		return iface{}
	}
	externals["(*sync/atomic.Value).Store"] = func(fr *frame, a []value) value {
		st := (*(a[0].(*value))).(structure)
		st[0] = a[1]
		return nil
	}

	// ---- fmt / errors
	externals["fmt.Errorf"] = func(fr *frame, a []value) value {
		return fr.i.mkError(fr.i.sprintf(a[0], a[1]))
	}
	externals["fmt.Sprintf"] = func(fr *frame, a []value) value { return fr.i.sprintfV(a[0], a[1]) }
	externals["fmt.Sprint"] = func(fr *frame, a []value) value { return fr.i.sprintV(a[0], "") }
	externals["fmt.Sprintln"] = func(fr *frame, a []value) value { return fr.i.sprintV(a[0], "\n") }
	for _, n := range []string{"Println", "Printf", "Print", "Fprintf", "Fprintln", "Fprint"} {
		externals["fmt."+n] = func(fr *frame, a []value) value { return tuple{0, iface{}} }
	}
	externals["github.com/pkg/errors.New"] = func(fr *frame, a []value) value { return fr.i.mkError(argString(a[0])) }
	externals["github.com/pkg/errors.Errorf"] = func(fr *frame, a []value) value {
		return fr.i.mkError(fr.i.sprintf(a[0], a[1]))
	}
	externals["github.com/pkg/errors.Wrap"] = func(fr *frame, a []value) value {
		if e, ok := a[0].(iface); ok && e.t == nil {
			return iface{}
		}
		return fr.i.mkError("wrapped: " + argString(a[1]))
	}
	externals["github.com/pkg/errors.Wrapf"] = externals["github.com/pkg/errors.Wrap"]
	externals["github.com/pkg/errors.Cause"] = func(fr *frame, a []value) value { return a[0] }

	// ---- time
	externals["time.Sleep"] = nop
	_ = strings.Repeat
}

const tokenADD = 12 // go/token.ADD

// sprintf: best-effort concrete formatting (symbolic arguments are rendered as "?").
func (i *interpreter) sprintf(format value, args value) string {
	f, ok := format.(string)
	if !ok {
		return "<symbolic format>"
	}
	as, _ := args.([]value)
	var natives []interface{}
	for _, a := range as {
		natives = append(natives, i.toNative(a))
	}
	return fmt.Sprintf(f, natives...)
}

// sprintfV: like sprintf but keeps symbolic bytes for %s / %v / %d-free pieces when the
// whole result would otherwise lose symbolic content.
func (i *interpreter) sprintfV(format value, args value) value {
	f, ok := format.(string)
	if !ok {
		unsupported("fmt.Sprintf with symbolic format")
	}
	as, _ := args.([]value)
	allConc := true
	for _, a := range as {
		if !i.isConcreteDeep(a) {
			allConc = false
		}
	}
	if allConc {
		return i.sprintf(format, args)
	}
	// piecewise: split the format at verbs
	var out []value
	ai := 0
	k := 0
	for k < len(f) {
		if f[k] != '%' {
			out = append(out, f[k])
			k++
			continue
		}
		j := k + 1
		for j < len(f) && strings.IndexByte("+-# 0123456789.", f[j]) >= 0 {
			j++
		}
		if j >= len(f) {
			unsupported("fmt.Sprintf: bad format %q", f)
		}
		verb := f[j]
		spec := f[k : j+1]
		k = j + 1
		if verb == '%' {
			out = append(out, uint8('%'))
			continue
		}
		if ai >= len(as) {
			unsupported("fmt.Sprintf: missing argument for %q", f)
		}
		a := as[ai]
		ai++
		if i.isConcreteDeep(a) {
			out = append(out, strVals(fmt.Sprintf(spec, i.toNative(a)))...)
			continue
		}
		inner := a
		if it, ok := a.(iface); ok {
			inner = it.v
		}
		switch x := inner.(type) {
		case symstr:
			if spec == "%s" || spec == "%v" {
				out = append(out, []value(x)...)
				continue
			}
		case []value:
			if spec == "%s" {
				out = append(out, x...)
				continue
			}
		}
		unsupported("fmt.Sprintf(%q): symbolic argument for verb %q", f, spec)
	}
	return mkStr(out)
}

func (i *interpreter) sprintV(args value, end string) value {
	as, _ := args.([]value)
	var natives []interface{}
	for _, a := range as {
		if !i.isConcreteDeep(a) {
			unsupported("fmt.Sprint with symbolic argument")
		}
		natives = append(natives, i.toNative(a))
	}
	if end == "\n" {
		return fmt.Sprintln(natives...)
	}
	return fmt.Sprint(natives...)
}

func (i *interpreter) isConcreteDeep(v value) bool {
	switch v := v.(type) {
	case *Term, symstr:
		return false
	case iface:
		return i.isConcreteDeep(v.v)
	case []value:
		for _, e := range v {
			if !i.isConcreteDeep(e) {
				return false
			}
		}
	case structure:
		for _, e := range v {
			if !i.isConcreteDeep(e) {
				return false
			}
		}
	case array:
		for _, e := range v {
			if !i.isConcreteDeep(e) {
				return false
			}
		}
	}
	return true
}

// toNative converts an interpreter value into something fmt can print.
func (i *interpreter) toNative(v value) interface{} {
	switch v := v.(type) {
	case iface:
		if v.t == nil {
			return nil
		}
		// error / Stringer values: call the method through the interpreter
		if types.Identical(v.t, i.errorStringPtr) {
			if p, ok := v.v.(*value); ok && p != nil {
				if st, ok := (*p).(structure); ok {
					if s, ok := st[0].(string); ok {
						return fmt.Errorf("%s", s)
					}
				}
			}
		}
		if m := i.findMethod(v.t, "Error"); m != nil {
			if s, ok := call(i, nil, 0, m, []value{v.v}).(string); ok {
				return fmt.Errorf("%s", s)
			}
		}
		if m := i.findMethod(v.t, "String"); m != nil && len(m.Blocks) > 0 {
			if s, ok := call(i, nil, 0, m, []value{v.v}).(string); ok {
				return s
			}
		}
		return i.toNative(v.v)
	case []value:
		if bs, ok := concreteBytes(v); ok && len(v) > 0 {
			return bs
		}
		out := make([]interface{}, len(v))
		for k, e := range v {
			out[k] = i.toNative(e)
		}
		return out
	case *Term:
		return "?"
	case symstr:
		return "?"
	case *value:
		if v == nil {
			return nil
		}
		return fmt.Sprintf("%p", v)
	case structure:
		out := make([]interface{}, len(v))
		for k, e := range v {
			out[k] = i.toNative(e)
		}
		return out
	case array:
		if bs, ok := concreteBytes([]value(v)); ok {
			return bs
		}
		return fmt.Sprint([]value(v))
	}
	return v
}

func (i *interpreter) findMethod(t types.Type, name string) *SSAFunction {
	ms := i.prog.MethodSets.MethodSet(t)
	for k := 0; k < ms.Len(); k++ {
		sel := ms.At(k)
		if sel.Obj().Name() == name {
			return i.prog.MethodValue(sel)
		}
	}
	return nil
}

// noteWatch records stores to watched words (verifWatch).
func (i *interpreter) noteWatch(p *value, v value) {
	if w, ok := i.extra["watch"].(map[*value]*[]value); ok {
		if log, ok := w[p]; ok {
			*log = append(*log, v)
		}
	}
}

// reflect: only opaque type tokens (tables of reflect.Type built in package inits)
type rtypeBox struct{ t types.Type }

func init() {
	externals["reflect.TypeOf"] = func(fr *frame, a []value) value {
		it, _ := a[0].(iface)
		return iface{t: types.Typ[types.UnsafePointer], v: rtypeBox{it.t}}
	}
}
