package sym

import (
	"fmt"
	"sync"

	"golang.org/x/tools/go/ssa"
)

// Frame environments are slices indexed by a per-function numbering of SSA values
// (locals, parameters, free variables, value-producing instructions), computed once.

var fnNumberings sync.Map // *ssa.Function -> map[ssa.Value]int32

func fnNumbering(fn *ssa.Function) map[ssa.Value]int32 {
	if n, ok := fnNumberings.Load(fn); ok {
		return n.(map[ssa.Value]int32)
	}
	m := make(map[ssa.Value]int32)
	add := func(v ssa.Value) {
		if _, ok := m[v]; !ok {
			m[v] = int32(len(m))
		}
	}
	for _, l := range fn.Locals {
		add(l)
	}
	for _, p := range fn.Params {
		add(p)
	}
	for _, fv := range fn.FreeVars {
		add(fv)
	}
	for _, b := range fn.Blocks {
		for _, in := range b.Instrs {
			if v, ok := in.(ssa.Value); ok {
				add(v)
			}
		}
	}
	fnNumberings.Store(fn, m)
	return m
}

type envT struct {
	idx map[ssa.Value]int32
	v   []value
}

func newEnv(fn *ssa.Function) envT {
	idx := fnNumbering(fn)
	return envT{idx: idx, v: make([]value, len(idx))}
}

func (e *envT) set(k ssa.Value, v value) {
	j, ok := e.idx[k]
	if !ok {
		panic(fmt.Sprintf("env.set: %T %s not numbered", k, k.Name()))
	}
	e.v[j] = v
}

func (e *envT) get(k ssa.Value) (value, bool) {
	j, ok := e.idx[k]
	if !ok {
		return nil, false
	}
	return e.v[j], true
}

func (fr *frame) envPtr(k ssa.Value) *value {
	v, _ := fr.env.get(k)
	return v.(*value)
}
