package sym

// libp2p peer.ID is a string type; its String/Pretty (base58 of the multihash) are only used
// in log lines and as opaque labels by the chain33 code reached so far: modelled as identity.
func init() {
	id := func(fr *frame, a []value) value { return a[0] }
	externals["(github.com/libp2p/go-libp2p/core/peer.ID).String"] = id
	externals["(github.com/libp2p/go-libp2p/core/peer.ID).Pretty"] = id
	externals["(github.com/libp2p/go-libp2p/core/peer.ID).ShortString"] = id
}
