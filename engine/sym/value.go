// Copyright 2013 The Go Authors. All rights reserved.
// Use of this source code is governed by a BSD-style
// license that can be found in the LICENSE file (LICENSE.x-tools).

package sym

// Values
//
// All interpreter values are "boxed" in the empty interface, value.
// The range of possible dynamic types within value are:
//
// - bool, numbers, string  (concrete)
// - *Term                  (symbolic bool / integer; sort follows the static type)
// - symstr                 (string with at least one symbolic byte; concrete length)
// - *smap                  (maps; association list + index for concrete keys)
// - *channel               (buffered queue; no blocking semantics)
// - []value --- slices
// - iface --- interfaces.
// - structure --- structs.  Fields are ordered and accessed by numeric indices.
// - array --- arrays.
// - *value --- pointers.  Careful: *value is a distinct type from *array etc.
// - *ssa.Function \
//   *ssa.Builtin   } --- functions.  A nil 'func' is always of type *ssa.Function.
//   *closure      /
// - tuple --- as returned by Return, Next, "value,ok" modes, etc.
// - iter --- iterators from 'range' over map or string.
// - **deferred -- the address of a frame's defer stack for a Defer._Stack.

import (
	"bytes"
	"fmt"
	"go/types"
	"unicode/utf8"
	"unsafe"

	"golang.org/x/tools/go/ssa"
)

type value interface{}

type tuple []value

type array []value

type iface struct {
	t types.Type // never an "untyped" type
	v value
}

type structure []value

// symstr is an immutable string some of whose bytes are symbolic (uint8 or *Term elements).
type symstr []value

// For map, array, *array, slice, string or channel.
type iter interface {
	// next returns a Tuple (key, value, ok).
	next() tuple
}

type closure struct {
	Fn  *ssa.Function
	Env []value
}

type channel struct {
	cap    int
	buf    []value
	closed bool
}

// nil-tolerant variant of types.Identical.
func sameType(x, y types.Type) bool {
	if x == nil {
		return y == nil
	}
	return y != nil && types.Identical(x, y)
}

func isSym(v value) bool {
	_, ok := v.(*Term)
	return ok
}

// strVals returns the bytes of a string value (string or symstr).
func strVals(v value) []value {
	switch s := v.(type) {
	case string:
		out := make([]value, len(s))
		for i := 0; i < len(s); i++ {
			out[i] = s[i]
		}
		return out
	case symstr:
		return []value(s)
	}
	panic(fmt.Sprintf("strVals: %T", v))
}

func strLen(v value) int {
	switch s := v.(type) {
	case string:
		return len(s)
	case symstr:
		return len(s)
	}
	panic(fmt.Sprintf("strLen: %T", v))
}

// mkStr builds a string value from bytes, concrete when possible. It copies.
func mkStr(bs []value) value {
	allc := true
	for _, b := range bs {
		if _, ok := b.(uint8); !ok {
			allc = false
			break
		}
	}
	if allc {
		buf := make([]byte, len(bs))
		for i, b := range bs {
			buf[i] = b.(uint8)
		}
		return string(buf)
	}
	out := make(symstr, len(bs))
	copy(out, bs)
	return out
}

// concreteBytes converts a []value of uint8 into []byte; ok=false if any element is symbolic.
func concreteBytes(bs []value) ([]byte, bool) {
	out := make([]byte, len(bs))
	for i, b := range bs {
		c, ok := b.(uint8)
		if !ok {
			return nil, false
		}
		out[i] = c
	}
	return out, true
}

func bytesToVals(b []byte) []value {
	if b == nil {
		return nil
	}
	out := make([]value, len(b))
	for i, c := range b {
		out[i] = c
	}
	return out
}

// eqv returns x == y for type t as bool or *Term (Bool sort).
func (i *interpreter) eqv(t types.Type, x, y value) value {
	switch x := x.(type) {
	case *Term:
		return i.normBool(i.ts.Eq(x, i.toTerm(y)))
	case bool, int, int8, int16, int32, int64, uint, uint8, uint16, uint32, uint64, uintptr:
		if yt, ok := y.(*Term); ok {
			return i.normBool(i.ts.Eq(i.toTerm(x), yt))
		}
		return x == y
	case float32:
		return x == y.(float32)
	case float64:
		return x == y.(float64)
	case complex64:
		return x == y.(complex64)
	case complex128:
		return x == y.(complex128)
	case string:
		if ys, ok := y.(string); ok {
			return x == ys
		}
		return i.strEq(x, y)
	case symstr:
		return i.strEq(x, y)
	case *value:
		return x == y.(*value)
	case *channel:
		return x == y.(*channel)
	case unsafe.Pointer:
		return x == y.(unsafe.Pointer)
	case structure:
		ys := y.(structure)
		tStruct := t.Underlying().(*types.Struct)
		var acc value = true
		for k, n := 0, tStruct.NumFields(); k < n; k++ {
			if f := tStruct.Field(k); f.Name() != "_" {
				acc = i.andv(acc, i.eqv(f.Type(), x[k], ys[k]))
				if acc == false {
					return false
				}
			}
		}
		return acc
	case array:
		ya := y.(array)
		tElt := t.Underlying().(*types.Array).Elem()
		var acc value = true
		for k := range x {
			acc = i.andv(acc, i.eqv(tElt, x[k], ya[k]))
			if acc == false {
				return false
			}
		}
		return acc
	case iface:
		yi := y.(iface)
		if !sameType(x.t, yi.t) {
			return false
		}
		if x.t == nil {
			return true
		}
		if !types.Comparable(x.t) {
			panic(targetPanic{iface{t: i.runtimeErrorString, v: "runtime error: comparing uncomparable type " + x.t.String()}})
		}
		return i.eqv(x.t, x.v, yi.v)
	case *smap:
		return x == y.(*smap)
	case *ssa.Function:
		if yf, ok := y.(*ssa.Function); ok {
			return x == yf
		}
		return false
	case *closure:
		if yc, ok := y.(*closure); ok {
			return x == yc
		}
		return false
	}
	panic(fmt.Sprintf("comparing uncomparable type %s (%T)", t, x))
}

func (i *interpreter) andv(a, b value) value {
	if a == false || b == false {
		return false
	}
	if a == true {
		return b
	}
	if b == true {
		return a
	}
	return i.normBool(i.ts.And(a.(*Term), b.(*Term)))
}

func (i *interpreter) strEq(x, y value) value {
	if strLen(x) != strLen(y) {
		return false
	}
	xs, ys := strVals(x), strVals(y)
	if e := i.hexStrEq(xs, ys); e != nil {
		return i.normBool(e)
	}
	if len(xs) >= 4 {
		// one wide equality (adjacent extracts of one term are merged back)
		return i.normBool(i.ts.Eq(i.bytesTerm(xs), i.bytesTerm(ys)))
	}
	conj := make([]*Term, 0, len(xs))
	for k := range xs {
		e := i.ts.Eq(i.toTerm(xs[k]), i.toTerm(ys[k]))
		if e.IsFalse() {
			return false
		}
		conj = append(conj, e)
	}
	return i.normBool(i.ts.And(conj...))
}

// load returns the value of type T in *addr.
func load(T types.Type, addr *value) value {
	switch T := T.Underlying().(type) {
	case *types.Struct:
		v := (*addr).(structure)
		a := make(structure, len(v))
		for i := range a {
			a[i] = load(T.Field(i).Type(), &v[i])
		}
		return a
	case *types.Array:
		v := (*addr).(array)
		a := make(array, len(v))
		for i := range a {
			a[i] = load(T.Elem(), &v[i])
		}
		return a
	default:
		return *addr
	}
}

// store stores value v of type T into *addr.
func store(T types.Type, addr *value, v value) {
	switch T := T.Underlying().(type) {
	case *types.Struct:
		lhs := (*addr).(structure)
		rhs := v.(structure)
		for i := range lhs {
			store(T.Field(i).Type(), &lhs[i], rhs[i])
		}
	case *types.Array:
		lhs := (*addr).(array)
		rhs := v.(array)
		for i := range lhs {
			store(T.Elem(), &lhs[i], rhs[i])
		}
	default:
		*addr = v
	}
}

// copyVal makes an unaliased copy of an aggregate value (structs/arrays are values).
func copyVal(v value) value {
	switch v := v.(type) {
	case structure:
		a := make(structure, len(v))
		for i := range v {
			a[i] = copyVal(v[i])
		}
		return a
	case array:
		a := make(array, len(v))
		for i := range v {
			a[i] = copyVal(v[i])
		}
		return a
	}
	return v
}

// Prints in the style of built-in println.
func writeValue(buf *bytes.Buffer, v value) {
	switch v := v.(type) {
	case nil, bool, int, int8, int16, int32, int64, uint, uint8, uint16, uint32, uint64, uintptr, float32, float64, complex64, complex128, string:
		fmt.Fprintf(buf, "%v", v)

	case *Term:
		buf.WriteString(v.String())

	case symstr:
		buf.WriteString("symstr[")
		for i, e := range v {
			if i > 0 {
				buf.WriteString(" ")
			}
			writeValue(buf, e)
		}
		buf.WriteString("]")

	case *smap:
		buf.WriteString("map[")
		if v != nil {
			sep := ""
			for _, e := range v.entries {
				if e.dead {
					continue
				}
				buf.WriteString(sep)
				sep = " "
				writeValue(buf, e.key)
				buf.WriteString(":")
				writeValue(buf, e.val)
			}
		}
		buf.WriteString("]")

	case *channel:
		fmt.Fprintf(buf, "chan(%p)", v)

	case *value:
		if v == nil {
			buf.WriteString("<nil>")
		} else {
			fmt.Fprintf(buf, "%p", v)
		}

	case iface:
		fmt.Fprintf(buf, "(%s, ", v.t)
		writeValue(buf, v.v)
		buf.WriteString(")")

	case structure:
		buf.WriteString("{")
		for i, e := range v {
			if i > 0 {
				buf.WriteString(" ")
			}
			writeValue(buf, e)
		}
		buf.WriteString("}")

	case array:
		buf.WriteString("[")
		for i, e := range v {
			if i > 0 {
				buf.WriteString(" ")
			}
			writeValue(buf, e)
		}
		buf.WriteString("]")

	case []value:
		buf.WriteString("[")
		for i, e := range v {
			if i > 0 {
				buf.WriteString(" ")
			}
			writeValue(buf, e)
		}
		buf.WriteString("]")

	case *ssa.Function, *ssa.Builtin, *closure:
		fmt.Fprintf(buf, "%p", v) // (an address)

	case tuple:
		buf.WriteString("(")
		for i, e := range v {
			if i > 0 {
				buf.WriteString(", ")
			}
			writeValue(buf, e)
		}
		buf.WriteString(")")

	default:
		fmt.Fprintf(buf, "<%T>", v)
	}
}

// Implements printing of Go values in the style of built-in println.
func toString(v value) string {
	var b bytes.Buffer
	writeValue(&b, v)
	return b.String()
}

// ------------------------------------------------------------------------
// Iterators

type stringIter struct {
	i    *interpreter
	s    []value
	conc string
	isC  bool
	pos  int
}

func (it *stringIter) next() tuple {
	okv := make(tuple, 3)
	if it.isC {
		if it.pos >= len(it.conc) {
			okv[0] = false
			return okv
		}
		r, n := utf8.DecodeRuneInString(it.conc[it.pos:])
		okv[0] = true
		okv[1] = it.pos
		okv[2] = r
		it.pos += n
		return okv
	}
	if it.pos >= len(it.s) {
		okv[0] = false
		return okv
	}
	b := it.s[it.pos]
	switch b := b.(type) {
	case uint8:
		if b < utf8.RuneSelf {
			okv[0], okv[1], okv[2] = true, it.pos, rune(b)
			it.pos++
			return okv
		}
		// concrete multi-byte sequence: need following bytes concrete
		end := it.pos + 1
		for end < len(it.s) && end < it.pos+4 {
			if _, ok := it.s[end].(uint8); !ok {
				break
			}
			end++
		}
		raw, _ := concreteBytes(it.s[it.pos:end])
		r, n := utf8.DecodeRune(raw)
		okv[0], okv[1], okv[2] = true, it.pos, r
		it.pos += n
		return okv
	case *Term:
		ascii := it.i.ts.BvCmp(OBvULT, b, it.i.ts.BVConst(utf8.RuneSelf, 8))
		if it.i.decide(ascii) {
			okv[0], okv[1], okv[2] = true, it.pos, it.i.norm(it.i.ts.ZExt(b, 32), types.Typ[types.Int32])
			it.pos++
			return okv
		}
		unsupported("range over string with symbolic non-ASCII byte")
	}
	panic("unreachable")
}

type mapIter struct {
	m    *smap
	snap []*mapEntry
	pos  int
}

func (it *mapIter) next() tuple {
	for it.pos < len(it.snap) {
		e := it.snap[it.pos]
		it.pos++
		if e.dead {
			continue
		}
		return tuple{true, e.key, copyVal(e.val)}
	}
	return tuple{false, nil, nil}
}
