package sym

import "math/big"

// Equalities between a collision-free hash application and a constant (random-oracle
// idealisation, active with Params["hash_injective"]=1):
//   - the constant is the real hash of a concrete input seen by the same modelled function
//     (KnownHash): H(x) == c  <=>  x == that input;
//   - otherwise the constant is not a hash output anybody can hit: H(x) == c is false.
// Concatenations against constants are split so that the rule reaches hashes embedded in
// keys (prefix || hash).

type knownHash struct {
	fn string
	in []byte
}

// constVal evaluates constants and concatenations of constants.
func (ts *TermStore) constVal(t *Term) (*big.Int, bool) {
	switch t.Op {
	case OConst:
		if t.Sort.K != KBV {
			return nil, false
		}
		return constBig(t), true
	case OConcat:
		hi, ok := ts.constVal(t.Args[0])
		if !ok {
			return nil, false
		}
		lo, ok := ts.constVal(t.Args[1])
		if !ok {
			return nil, false
		}
		v := new(big.Int).Lsh(hi, uint(t.Args[1].Sort.W))
		return v.Or(v, lo), true
	}
	return nil, false
}

func (ts *TermStore) containsInjective(t *Term, depth int) bool {
	if t.Op == OApp && ts.Injective[t.Name] {
		return true
	}
	if depth == 0 {
		return false
	}
	if t.Op == OConcat {
		return ts.containsInjective(t.Args[0], depth-1) || ts.containsInjective(t.Args[1], depth-1)
	}
	return false
}

// eqHashConst returns a simplified form of Eq(a, b) or nil when the rule does not apply.
func (ts *TermStore) eqHashConst(a, b *Term) *Term {
	if _, ok := ts.constVal(a); ok {
		a, b = b, a
	}
	bv, ok := ts.constVal(b)
	if !ok {
		return nil
	}
	switch {
	case a.Op == OApp && ts.Injective[a.Name]:
		w := a.Sort.W / 8
		out := make([]byte, w)
		bv.FillBytes(out)
		kh, ok := ts.KnownHash[string(out)]
		if !ok || kh.fn != a.Name {
			return ts.False
		}
		arg := a.Args[0]
		if arg.Sort.W != 8*len(kh.in) {
			return ts.False
		}
		return ts.Eq(arg, ts.BVConstBig(new(big.Int).SetBytes(kh.in), arg.Sort.W))
	case a.Op == OConcat && ts.containsInjective(a, 6):
		loW := a.Args[1].Sort.W
		hiW := a.Args[0].Sort.W
		hi := new(big.Int).Rsh(bv, uint(loW))
		lo := new(big.Int).And(bv, new(big.Int).Sub(new(big.Int).Lsh(big.NewInt(1), uint(loW)), big.NewInt(1)))
		return ts.And(ts.Eq(a.Args[0], ts.BVConstBig(hi, hiW)), ts.Eq(a.Args[1], ts.BVConstBig(lo, loW)))
	}
	return nil
}

func (ts *TermStore) minSliceBits() int {
	if ts.MinSliceBits > 0 {
		return ts.MinSliceBits
	}
	return 64
}
