package sym

import (
	"go/token"
	"go/types"
)

const tokenSUB = token.SUB

var typInt64 = types.Typ[types.Int64]

const (
	tokenADDt = token.ADD
	tokenGTR  = token.GTR
	tokenLSS  = token.LSS
)

var typUint8 = types.Typ[types.Uint8]
