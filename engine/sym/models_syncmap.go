package sym

import "go/types"

// sync.Map: an association list kept in the struct's "dirty" field slot.
func syncMapOf(a []value, create bool) *smap {
	p := a[0].(*value)
	st := (*p).(structure)
	const slot = 2
	if m, ok := st[slot].(*smap); ok && m != nil {
		return m
	}
	if !create {
		return nil
	}
	m := makeMap(types.NewInterfaceType(nil, nil))
	st[slot] = m
	return m
}

func init() {
	const sm = "(*sync.Map)."
	externals[sm+"Load"] = func(fr *frame, a []value) value {
		m := syncMapOf(a, false)
		if m == nil {
			return tuple{iface{}, false}
		}
		v, ok := m.lookup(fr.i, a[1])
		if !ok {
			return tuple{iface{}, false}
		}
		return tuple{v, true}
	}
	externals[sm+"Store"] = func(fr *frame, a []value) value {
		syncMapOf(a, true).insert(fr.i, a[1], a[2])
		return nil
	}
	externals[sm+"LoadOrStore"] = func(fr *frame, a []value) value {
		m := syncMapOf(a, true)
		if v, ok := m.lookup(fr.i, a[1]); ok {
			return tuple{v, true}
		}
		m.insert(fr.i, a[1], a[2])
		return tuple{a[2], false}
	}
	externals[sm+"Delete"] = func(fr *frame, a []value) value {
		if m := syncMapOf(a, false); m != nil {
			m.delete(fr.i, a[1])
		}
		return nil
	}
	externals[sm+"LoadAndDelete"] = func(fr *frame, a []value) value {
		m := syncMapOf(a, false)
		if m == nil {
			return tuple{iface{}, false}
		}
		v, ok := m.lookup(fr.i, a[1])
		if ok {
			m.delete(fr.i, a[1])
			return tuple{v, true}
		}
		return tuple{iface{}, false}
	}
	externals[sm+"Range"] = func(fr *frame, a []value) value {
		m := syncMapOf(a, false)
		if m == nil {
			return nil
		}
		it := fr.i.mapIter(m)
		for {
			t := it.next()
			if !t[0].(bool) {
				break
			}
			r := call(fr.i, fr, 0, a[1], []value{t[1], t[2]})
			if b, ok := r.(bool); ok && !b {
				break
			}
		}
		return nil
	}
}
