package sym

func init() {
	externals["github.com/33cn/chain33/types.Now"] = func(fr *frame, a []value) value {
		return structure{uint64(0), fr.i.clock(), (*value)(nil)}
	}
	externals["(time.Time).Add"] = func(fr *frame, a []value) value {
		t := a[0].(structure)
		d, ok := a[1].(int64)
		if !ok {
			unsupported("time.Add with symbolic duration")
		}
		s := fr.i.binop(tokenADDt, typInt64, typInt64, t[1], int64(d/1000000000))
		return structure{uint64(0), s, (*value)(nil)}
	}
	externals["(time.Time).Sub"] = func(fr *frame, a []value) value {
		x, y := a[0].(structure), a[1].(structure)
		d := fr.i.binop(tokenSUB, typInt64, typInt64, x[1], y[1])
		if c, ok := d.(int64); ok {
			return c * 1000000000
		}
		unsupported("time.Sub with symbolic instants")
		return nil
	}
	externals["(time.Time).After"] = func(fr *frame, a []value) value {
		x, y := a[0].(structure), a[1].(structure)
		return fr.i.binop(tokenGTR, typInt64, typInt64, x[1], y[1])
	}
	externals["(time.Time).Before"] = func(fr *frame, a []value) value {
		x, y := a[0].(structure), a[1].(structure)
		return fr.i.binop(tokenLSS, typInt64, typInt64, x[1], y[1])
	}
}
