package sym

// strings.Builder (uses unsafe in copyCheck/String) modelled on its buf field.

import "go/types"

func builderBuf(a []value) *value {
	p := a[0].(*value)
	st := (*p).(structure)
	return &st[1]
}

func init() {
	const b = "(*strings.Builder)."
	appendVals := func(a []value, vs []value) {
		c := builderBuf(a)
		cur, _ := (*c).([]value)
		*c = append(cur, vs...)
	}
	externals[b+"WriteString"] = func(fr *frame, a []value) value {
		appendVals(a, strVals(a[1]))
		return tuple{strLen(a[1]), iface{}}
	}
	externals[b+"Write"] = func(fr *frame, a []value) value {
		bs := a[1].([]value)
		appendVals(a, bs)
		return tuple{len(bs), iface{}}
	}
	externals[b+"WriteByte"] = func(fr *frame, a []value) value {
		appendVals(a, []value{a[1]})
		return iface{}
	}
	externals[b+"WriteRune"] = func(fr *frame, a []value) value {
		r, ok := a[1].(int32)
		if !ok {
			unsupported("strings.Builder.WriteRune with symbolic rune")
		}
		s := string(rune(r))
		appendVals(a, strVals(s))
		return tuple{len(s), iface{}}
	}
	externals[b+"String"] = func(fr *frame, a []value) value {
		cur, _ := (*builderBuf(a)).([]value)
		return mkStr(cur)
	}
	externals[b+"Len"] = func(fr *frame, a []value) value {
		cur, _ := (*builderBuf(a)).([]value)
		return len(cur)
	}
	externals[b+"Cap"] = externals[b+"Len"]
	externals[b+"Grow"] = func(fr *frame, a []value) value { return nil }
	externals[b+"Reset"] = func(fr *frame, a []value) value {
		*builderBuf(a) = []value(nil)
		return nil
	}
	_ = types.Typ
}
