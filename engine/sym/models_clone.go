package sym

func init() {
	// string cloning implemented with unsafe.String: strings are immutable values here
	externals["internal/stringslite.Clone"] = func(fr *frame, a []value) value { return a[0] }
	externals["strings.Clone"] = func(fr *frame, a []value) value { return a[0] }
}
