package sym

// Intrinsics (verif* harness API), models of body-less library functions, and the
// native-call registry (real function invoked when every argument is concrete).

import (
	"fmt"
	"go/types"
	"math/big"
	"strings"

	"golang.org/x/tools/go/ssa"
)

type externalFn func(fr *frame, args []value) value

var externals = map[string]externalFn{}
var verifIntrinsics = map[string]externalFn{}

// opaqueGlobals: initialisers for package-level variables of body-less packages.
var opaqueGlobals = map[string]func(i *interpreter, t types.Type, cell *value){}

// noopPackages: every body-less function of these packages is a no-op returning zero values.
var noopPackages = map[string]bool{
	"github.com/33cn/chain33/common/log/log15": true,
	"github.com/33cn/chain33/common/log":       true,
	"github.com/rcrowley/go-metrics":           true,
	"log":                                      true,
}

func patternExternal(i *interpreter, fn *ssa.Function, full string) externalFn {
	if fn.Pkg != nil && noopPackages[fn.Pkg.Pkg.Path()] {
		return noopZero(fn)
	}
	if zeroResultFuncs[full] {
		return noopZero(fn)
	}
	if allocResultFuncs[full] {
		// constructor of an opaque object: a fresh zero value behind a non-nil pointer
		return func(fr *frame, args []value) value {
			rt := fn.Signature.Results().At(0).Type()
			cell := zero(mustDeref(rt))
			return &cell
		}
	}
	if fn.Pkg != nil && strings.HasPrefix(fn.Pkg.Pkg.Path(), "google.golang.org/protobuf/") {
		return noopZero(fn) // descriptor registration plumbing of generated code
	}
	if recv := fn.Signature.Recv(); recv != nil {
		if p := pkgOfType(recv.Type()); p != nil && strings.HasPrefix(p.Path(), "google.golang.org/protobuf/") {
			return noopZero(fn)
		}
	}
	if fn.Pkg == nil {
		// method of a type from a body-less package reached through an interface wrapper
		if recv := fn.Signature.Recv(); recv != nil {
			if p := pkgOfType(recv.Type()); p != nil && noopPackages[p.Path()] {
				return noopZero(fn)
			}
		}
	}
	return nil
}

func pkgOfType(t types.Type) *types.Package {
	if p, ok := t.(*types.Pointer); ok {
		t = p.Elem()
	}
	if n, ok := t.(*types.Named); ok && n.Obj() != nil {
		return n.Obj().Pkg()
	}
	return nil
}

func noopZero(fn *ssa.Function) externalFn {
	return func(fr *frame, args []value) value {
		res := fn.Signature.Results()
		switch res.Len() {
		case 0:
			return nil
		case 1:
			return zeroOrOpaque(fr.i, res.At(0).Type())
		}
		out := make(tuple, res.Len())
		for k := range out {
			out[k] = zeroOrOpaque(fr.i, res.At(k).Type())
		}
		return out
	}
}

// zeroOrOpaque: for logger-like interfaces return a non-nil opaque object so that method
// calls on it can be dispatched (to no-ops).
func zeroOrOpaque(i *interpreter, t types.Type) value {
	if n, ok := t.(*types.Named); ok && n.Obj().Pkg() != nil && noopPackages[n.Obj().Pkg().Path()] {
		if _, isIface := n.Underlying().(*types.Interface); isIface {
			// find a concrete type in that package implementing it: use *logger for log15
			if impl := n.Obj().Pkg().Scope().Lookup("logger"); impl != nil {
				pt := types.NewPointer(impl.Type())
				var s value = zero(impl.Type())
				return iface{t: pt, v: &s}
			}
		}
	}
	return zero(t)
}

// ---------------------------------------------------------------- verif* intrinsics

func argString(v value) string {
	if s, ok := v.(string); ok {
		return s
	}
	return "?"
}

func sanitize(s string) string {
	var b strings.Builder
	for _, c := range s {
		if c >= 'a' && c <= 'z' || c >= 'A' && c <= 'Z' || c >= '0' && c <= '9' || c == '_' {
			b.WriteRune(c)
		} else {
			b.WriteByte('_')
		}
	}
	return b.String()
}

// fresh creates the next nondeterministic input.
func (i *interpreter) fresh(name string, s Sort, t types.Type) value {
	return i.freshX(name, s, t, false)
}

// freshX: internal=true marks inputs that exist only under the engine (e.g. math/rand
// values): they are not part of the native replay vector.
func (i *interpreter) freshX(name string, s Sort, t types.Type, internal bool) value {
	k := len(i.nondets)
	if vec := i.cfg.ConcreteVec; vec != nil {
		var v uint64
		if k < len(vec) {
			v = vec[k]
		}
		i.nondets = append(i.nondets, nondetRec{Name: name, Conc: v, Kind: "conc", Internal: internal})
		if s.K == KBool {
			return v&1 == 1
		}
		return i.norm(i.ts.BVConst(v, s.W), t)
	}
	vn := fmt.Sprintf("n%d_%s", k, sanitize(name))
	term := i.ts.Var(vn, s)
	i.nondets = append(i.nondets, nondetRec{Name: name, Term: term, Kind: "var", Internal: internal})
	return term
}

func init() {
	mkInt := func(w int, kind types.BasicKind) externalFn {
		return func(fr *frame, args []value) value {
			return fr.i.fresh(argString(args[0]), BV(w), types.Typ[kind])
		}
	}
	verifIntrinsics["verifU8"] = mkInt(8, types.Uint8)
	verifIntrinsics["verifU16"] = mkInt(16, types.Uint16)
	verifIntrinsics["verifU32"] = mkInt(32, types.Uint32)
	verifIntrinsics["verifU64"] = mkInt(64, types.Uint64)
	verifIntrinsics["verifI8"] = mkInt(8, types.Int8)
	verifIntrinsics["verifI16"] = mkInt(16, types.Int16)
	verifIntrinsics["verifI32"] = mkInt(32, types.Int32)
	verifIntrinsics["verifI64"] = mkInt(64, types.Int64)
	verifIntrinsics["verifInt"] = mkInt(64, types.Int)
	verifIntrinsics["verifBool"] = func(fr *frame, args []value) value {
		return fr.i.fresh(argString(args[0]), BoolSort, types.Typ[types.Bool])
	}
	// verifChoose(name, n) int: unconstrained n-way fork, value in [0,n)
	verifIntrinsics["verifChoose"] = func(fr *frame, args []value) value {
		i := fr.i
		n := int(i.concreteInt(args[1], "verifChoose n"))
		if n <= 0 {
			panic(abortPath{abEngine, "verifChoose with n <= 0"})
		}
		if vec := i.cfg.ConcreteVec; vec != nil {
			var v uint64
			if k := len(i.nondets); k < len(vec) {
				v = vec[k]
			}
			v %= uint64(n)
			i.nondets = append(i.nondets, nondetRec{Name: argString(args[0]), Conc: v, Kind: "choose"})
			return int(v)
		}
		c := i.choose(n, argString(args[0]))
		i.nondets = append(i.nondets, nondetRec{Name: argString(args[0]), Conc: uint64(c), Kind: "choose"})
		return c
	}
	verifIntrinsics["verifAssume"] = func(fr *frame, args []value) value {
		i := fr.i
		switch c := args[0].(type) {
		case bool:
			if !c {
				panic(abortPath{abAssume, "assumption false"})
			}
		case *Term:
			// follow only the true side; no alternative is queued
			pos := len(i.decisions)
			if pos < len(i.prefix) {
				i.decisions = append(i.decisions, 1)
				i.assertPC(c)
				i.modelValid = false
				return nil
			}
			if i.modelValid {
				if v, ok := i.ts.Eval(c, i.model, nil2memo()); ok && v.Sign() != 0 {
					i.decisions = append(i.decisions, 1)
					i.assertPC(c)
					return nil
				}
			}
			res, m := i.check(c)
			if res == Unsat {
				panic(abortPath{abAssume, "assumption infeasible"})
			}
			if res == Unknown {
				i.uncertain = true
				i.w.noteUnknown("assume: solver unknown")
			}
			i.decisions = append(i.decisions, 1)
			i.assertPC(c)
			i.model, i.modelValid = m, m != nil
		}
		return nil
	}
	verifIntrinsics["verifAssert"] = func(fr *frame, args []value) value {
		i := fr.i
		label := argString(args[0])
		i.asserted[label]++
		switch c := args[1].(type) {
		case bool:
			if !c {
				i.recordViolation(label, "assertion is false on this path"+fr.callerLoc())
				panic(abortPath{abViolation, label})
			}
		case *Term:
			nc := i.ts.Not(c)
			res, vm := i.check(nc)
			if i.cross != nil && res != Unknown {
				e0 := i.cross.Stats.Errors
				r2 := i.cross.Check(nc)
				if i.cross.Stats.Errors > e0 && !i.cross.dead {
					// the incremental session of the second solver broke (e.g. "push canceled"
					// after a timeout under load): rebuild it from the path condition and ask
					// once more; only errors of the rebuilt session count
					i.cross.Stats.Errors = e0
					if e0 == 0 {
						i.cross.Stats.FirstError = ""
					}
					i.cross.HardReset()
					i.cross.Push()
					for _, t := range i.pcTerms {
						i.cross.Assert(t)
					}
					r2 = i.cross.Check(nc)
				}
				if r2 != res && r2 != Unknown {
					i.w.noteUnknown(fmt.Sprintf("solver disagreement on assertion %s: %s=%s %s=%s", label, i.solver.Name, res, i.cross.Name, r2))
				}
			}
			switch res {
			case Sat:
				i.modelValid = false
				i.recordViolationModel(label, "assertion can fail"+fr.callerLoc(), vm)
				panic(abortPath{abViolation, label})
			case Unknown:
				i.w.noteUnknown("assertion " + label + ": solver unknown")
			}
			// holds on this path: continue under c (implied, so the model stays valid)
			i.assertPC(c)
		}
		return nil
	}
	verifIntrinsics["verifReach"] = func(fr *frame, args []value) value {
		fr.i.reached[argString(args[0])]++
		return nil
	}
	verifIntrinsics["verifStop"] = func(fr *frame, args []value) value {
		panic(abortPath{abDone, "verifStop"})
	}
	verifIntrinsics["verifObserve"] = func(fr *frame, args []value) value {
		i := fr.i
		vals, _ := args[1].([]value)
		i.observes = append(i.observes, observeRec{Label: argString(args[0]), Vals: append([]value(nil), vals...)})
		return nil
	}
	verifIntrinsics["verifParam"] = func(fr *frame, args []value) value {
		if v, ok := fr.i.cfg.Params[argString(args[0])]; ok {
			return v
		}
		return args[1]
	}
	verifIntrinsics["verifSymbolic"] = func(fr *frame, args []value) value { return true }
	verifIntrinsics["verifMapOrder"] = func(fr *frame, args []value) value {
		fr.i.mapOrderFork = args[0].(bool)
		return nil
	}
	verifIntrinsics["verifGoMode"] = func(fr *frame, args []value) value {
		fr.i.goMode = goMode(asInt64(args[0]))
		return nil
	}
	verifIntrinsics["verifRunPending"] = func(fr *frame, args []value) value {
		fr.i.runPending()
		return nil
	}
	// verifIsConcrete(x interface{}) bool — diagnostics for harness authors
	verifIntrinsics["verifIsConcrete"] = func(fr *frame, args []value) value {
		if it, ok := args[0].(iface); ok {
			_, s := it.v.(*Term)
			return !s
		}
		return true
	}
}

func (fr *frame) callerLoc() string {
	if fr.caller == nil {
		return ""
	}
	return " (in " + fr.caller.fn.Name() + ")"
}

// recordViolationInScope is recordViolation when the solver scope already holds pc ∧ ¬cond
// with a Sat answer.
func (i *interpreter) recordViolationModel(label, msg string, m Model) {
	ex := i.w.ex
	ex.mu.Lock()
	n := ex.vcount[label]
	ex.vcount[label]++
	ex.mu.Unlock()
	if n >= ex.cfg.MaxViolation {
		return
	}
	if m == nil {
		ex.mu.Lock()
		ex.rep.Inconclusive["assertion "+label+": model could not be read"]++
		ex.mu.Unlock()
		return
	}
	v := Violation{Label: label, Msg: msg, Decisions: append([]int(nil), i.decisions...), Confirmed: true}
	for _, nd := range i.nondets {
		var val uint64
		if nd.Term != nil {
			if nd.Bytes > 0 {
				x := m[nd.Term.Name]
				if x == nil {
					x = new(big.Int)
				}
				for _, b := range expandWide(x, nd.Bytes) {
					v.Names = append(v.Names, nd.Name)
					v.Vector = append(v.Vector, b)
				}
				continue
			}
			if x := m[nd.Term.Name]; x != nil {
				val = x.Uint64()
			}
		} else {
			val = nd.Conc
		}
		if nd.Internal {
			v.InternalVals = append(v.InternalVals, fmt.Sprintf("%s=%d", nd.Name, val))
			continue
		}
		v.Names = append(v.Names, nd.Name)
		v.Vector = append(v.Vector, val)
	}
	v.Internal = i.internalChoices > 0
	ex.mu.Lock()
	ex.rep.Violations = append(ex.rep.Violations, v)
	ex.mu.Unlock()
}

func nil2memo() map[int]*big.Int { return map[int]*big.Int{} }

// ---------------------------------------------------------------- math/rand: nondeterministic

func init() {
	randVal := func(fr *frame, name string, w int, t types.Type, nonneg bool) value {
		i := fr.i
		budget := i.cfg.Params["rand_budget"]
		used, _ := i.extra["rand_used"].(int)
		if used >= budget {
			// a value that ends "while rand()&mask < threshold" style loops
			switch w {
			case 32:
				return i.norm(i.ts.BVConst(0x7fffffff, 32), t)
			}
			return i.norm(i.ts.BVConst(0x7fffffffffffffff, 64), t)
		}
		i.extra["rand_used"] = used + 1
		v := i.freshX(name, BV(w), t, true)
		if term, ok := v.(*Term); ok && nonneg {
			// non-negative: clear the sign bit
			return i.norm(i.ts.BvBin(OBvAnd, term, i.ts.BVConst(mask(w-1), w)), t)
		}
		return v
	}
	for _, recv := range []string{"math/rand.", "(*math/rand.Rand)."} {
		off := 0
		if recv != "math/rand." {
			off = 1
		}
		_ = off
		externals[recv+"Int"] = func(fr *frame, a []value) value {
			return randVal(fr, "rand.Int", 64, types.Typ[types.Int], true)
		}
		externals[recv+"Int63"] = func(fr *frame, a []value) value {
			return randVal(fr, "rand.Int63", 64, types.Typ[types.Int64], true)
		}
		externals[recv+"Int31"] = func(fr *frame, a []value) value {
			return randVal(fr, "rand.Int31", 32, types.Typ[types.Int32], true)
		}
		externals[recv+"Uint32"] = func(fr *frame, a []value) value {
			return randVal(fr, "rand.Uint32", 32, types.Typ[types.Uint32], false)
		}
		externals[recv+"Uint64"] = func(fr *frame, a []value) value {
			return randVal(fr, "rand.Uint64", 64, types.Typ[types.Uint64], false)
		}
		externals[recv+"Seed"] = func(fr *frame, a []value) value { return nil }
	}
}

// skipInits: package initialisers that only set up reflection-based helpers the engine
// never uses (errors.As's errorType, unicode tables are data and are kept).
var skipInits = map[string]bool{
	"errors.init":  true,
	// only reflect.TypeOf/uint256 helper globals; IsHexAddress & co. need none of them
	"github.com/ethereum/go-ethereum/common.init": true,
	"strconv.init": false,
}

// zeroResultFuncs: body-less functions whose result is only stored in tables that the
// checked code paths never read (reflection values built in package initialisers).
var zeroResultFuncs = map[string]bool{
	"reflect.ValueOf": true,
	"reflect.Zero":    true,
}
