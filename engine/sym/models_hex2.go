package sym

import "go/types"

// hexNibs remembers which 4-bit term each symbolic hex digit produced by hexOf stands for, so
// that common.FromHex(common.ToHex(x)) gives x back for symbolic x (terms are hash-consed:
// the same nibble always yields the same digit term).
func (i *interpreter) hexNibs() map[*Term]*Term {
	if m, ok := i.extra["hexnibs"].(map[*Term]*Term); ok {
		return m
	}
	m := map[*Term]*Term{}
	i.extra["hexnibs"] = m
	return m
}

func init() {
	const common = "github.com/33cn/chain33/common."
	concrete := externals[common+"FromHex"]
	externals[common+"FromHex"] = func(fr *frame, a []value) value {
		if _, ok := a[0].(string); ok {
			return concrete(fr, a)
		}
		i := fr.i
		cs := strVals(a[0])
		if len(cs) >= 2 {
			if c0, ok := cs[0].(uint8); ok && c0 == '0' {
				if c1, ok := cs[1].(uint8); ok && (c1 == 'x' || c1 == 'X') {
					cs = cs[2:]
				}
			}
		}
		if len(cs)%2 == 1 {
			unsupported("common.FromHex of a symbolic string of odd length")
		}
		bad := false
		nib := func(v value) *Term {
			switch c := v.(type) {
			case uint8:
				switch {
				case c >= '0' && c <= '9':
					return i.ts.BVConst(uint64(c-'0'), 4)
				case c >= 'a' && c <= 'f':
					return i.ts.BVConst(uint64(c-'a'+10), 4)
				case c >= 'A' && c <= 'F':
					return i.ts.BVConst(uint64(c-'A'+10), 4)
				}
			case *Term:
				if t, ok := i.hexNibs()[c]; ok {
					return t
				}
				// an arbitrary symbolic character: decode it as a digit or a lower/upper
				// case letter; one fork on "is a hex character at all"
				ts := i.ts
				in := func(lo, hi byte) *Term {
					return ts.And(ts.Not(ts.BvCmp(OBvULT, c, ts.BVConst(uint64(lo), 8))), ts.Not(ts.BvCmp(OBvULT, ts.BVConst(uint64(hi), 8), c)))
				}
				dig, low, up := in('0', '9'), in('a', 'f'), in('A', 'F')
				if !i.truth(i.normBool(ts.Or(dig, low, up))) {
					bad = true
					return ts.BVConst(0, 4)
				}
				sub := func(k byte) *Term { return ts.Extract(ts.BvBin(OBvSub, c, ts.BVConst(uint64(k), 8)), 3, 0) }
				return ts.Ite(dig, sub('0'), ts.Ite(low, sub('a'-10), sub('A'-10)))
			}
			unsupported("common.FromHex of a symbolic string that is not the output of ToHex")
			return nil
		}
		out := make([]value, len(cs)/2)
		for k := range out {
			out[k] = i.norm(i.ts.Concat(nib(cs[2*k]), nib(cs[2*k+1])), types.Typ[types.Uint8])
		}
		if bad {
			return tuple{[]value(nil), i.mkError("encoding/hex: invalid byte")}
		}
		return tuple{out, iface{}}
	}
}
