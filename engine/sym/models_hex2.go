package sym

import "go/types"

// hexNibs remembers which 4-bit term each symbolic hex digit produced by hexOf stands for, so
// that common.FromHex(common.ToHex(x)) gives x back for symbolic x (terms are hash-consed:
// the same nibble always yields the same digit term).
func (i *interpreter) hexNibs() map[*Term]*Term {
	if m, ok := i.extra["hexnibs"].(map[*Term]*Term); ok {
		return m
	}
	m := map[*Term]*Term{}
	i.extra["hexnibs"] = m
	return m
}

func init() {
	const common = "github.com/33cn/chain33/common."
	concrete := externals[common+"FromHex"]
	externals[common+"FromHex"] = func(fr *frame, a []value) value {
		if _, ok := a[0].(string); ok {
			return concrete(fr, a)
		}
		i := fr.i
		cs := strVals(a[0])
		if len(cs) >= 2 {
			if c0, ok := cs[0].(uint8); ok && c0 == '0' {
				if c1, ok := cs[1].(uint8); ok && (c1 == 'x' || c1 == 'X') {
					cs = cs[2:]
				}
			}
		}
		if len(cs)%2 == 1 {
			unsupported("common.FromHex of a symbolic string of odd length")
		}
		nib := func(v value) *Term {
			switch c := v.(type) {
			case uint8:
				switch {
				case c >= '0' && c <= '9':
					return i.ts.BVConst(uint64(c-'0'), 4)
				case c >= 'a' && c <= 'f':
					return i.ts.BVConst(uint64(c-'a'+10), 4)
				case c >= 'A' && c <= 'F':
					return i.ts.BVConst(uint64(c-'A'+10), 4)
				}
			case *Term:
				if t, ok := i.hexNibs()[c]; ok {
					return t
				}
			}
			unsupported("common.FromHex of a symbolic string that is not the output of ToHex")
			return nil
		}
		out := make([]value, len(cs)/2)
		for k := range out {
			out[k] = i.norm(i.ts.Concat(nib(cs[2*k]), nib(cs[2*k+1])), types.Typ[types.Uint8])
		}
		return tuple{out, iface{}}
	}
}
