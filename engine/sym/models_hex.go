package sym

import (
	"encoding/hex"
	"go/types"
)

// hexOf renders bytes as lower-case hex; symbolic bytes become ite chains over a nibble.
func (i *interpreter) hexOf(bs []value) []value {
	const digits = "0123456789abcdef"
	out := make([]value, 0, 2*len(bs))
	nib := func(t *Term) value {
		res := i.ts.BVConst(uint64(digits[15]), 8)
		for k := 14; k >= 0; k-- {
			res = i.ts.Ite(i.ts.Eq(t, i.ts.BVConst(uint64(k), 4)), i.ts.BVConst(uint64(digits[k]), 8), res)
		}
		if res.Op != OConst {
			i.hexNibs()[res] = t
		}
		return i.norm(res, types.Typ[types.Uint8])
	}
	for _, b := range bs {
		switch b := b.(type) {
		case uint8:
			out = append(out, digits[b>>4], digits[b&15])
		case *Term:
			out = append(out, nib(i.ts.Extract(b, 7, 4)), nib(i.ts.Extract(b, 3, 0)))
		}
	}
	return out
}

func init() {
	const common = "github.com/33cn/chain33/common."
	externals[common+"ToHex"] = func(fr *frame, a []value) value {
		bs := a[0].([]value)
		if len(bs) == 0 {
			return ""
		}
		return mkStr(append([]value{uint8('0'), uint8('x')}, fr.i.hexOf(bs)...))
	}
	externals[common+"HashHex"] = externals[common+"ToHex"]
	externals[common+"FromHex"] = func(fr *frame, a []value) value {
		s, ok := a[0].(string)
		if !ok {
			unsupported("common.FromHex of a symbolic string")
		}
		if len(s) > 1 && (s[0:2] == "0x" || s[0:2] == "0X") {
			s = s[2:]
		}
		if len(s)%2 == 1 {
			s = "0" + s
		}
		b, err := hex.DecodeString(s)
		if err != nil {
			return tuple{[]value(nil), fr.i.mkError(err.Error())}
		}
		if len(b) == 0 && len(s) == 0 {
			return tuple{[]value{}, iface{}}
		}
		return tuple{bytesToVals(b), iface{}}
	}
}
