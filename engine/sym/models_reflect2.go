package sym

import "go/types"

func init() {
	// reflection-built method tables of executor types: empty (never consulted by the kernels)
	externals["github.com/33cn/chain33/types.ListMethodByType"] = func(fr *frame, a []value) value {
		return makeMap(types.Typ[types.String])
	}
	externals["github.com/33cn/chain33/types.ListMethod"] = func(fr *frame, a []value) value {
		return makeMap(types.Typ[types.String])
	}
}
