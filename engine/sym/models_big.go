package sym

// math/big.Int as an intrinsic type. math/big itself is never interpreted (its word loops
// and 64x64 multiplies are out of reach). The mathematical value of each big.Int is a term
// kept in interpreter.bigs, keyed by the address of the struct. Two encodings:
//
//	mode 0 (default): SMT Int            — exact, unbounded; good for + - * div cmp
//	mode W > 0:       signed BitVec(W)   — good for shifts/masks/bytes (no Int<->BV bridging,
//	                                        which none of z3 4.8.12 / 5.1.0 / cvc5 1.0 decide here);
//	                                        every operation carries a no-overflow obligation
//	                                        (checked: overflow of W bits => path inconclusive).
//
// The harness selects the mode with verifBigMode(W).

import (
	"go/types"
	"math/big"
	"strconv"
)

const maxBigBytes = 300 // Bytes()/Bits()/BitLen() of a symbolic value are supported up to this byte length

func (i *interpreter) bigW() int {
	if w, ok := i.extra["bigmode"]; ok {
		return w.(int)
	}
	return i.cfg.Params["bigmode"]
}

func (i *interpreter) bigGet(p value) *Term {
	ptr, ok := p.(*value)
	if !ok || ptr == nil {
		i.runtimePanic("invalid memory address or nil pointer dereference (nil *big.Int)")
	}
	if t, ok := i.bigs[ptr]; ok {
		return t
	}
	return i.bConst(big.NewInt(0))
}

func (i *interpreter) bigSet(p value, t *Term) value {
	ptr := p.(*value)
	if ptr == nil {
		i.runtimePanic("invalid memory address or nil pointer dereference (nil *big.Int)")
	}
	i.bigs[ptr] = t
	return ptr
}

func (i *interpreter) bigNew(t *Term) value {
	bt := i.bigIntType()
	cell := zero(bt)
	p := &cell
	i.bigs[p] = t
	return p
}

func (i *interpreter) bigIntType() types.Type {
	if t, ok := i.extra["big.Int"]; ok {
		return t.(types.Type)
	}
	for _, p := range i.prog.AllPackages() {
		if p.Pkg.Path() == "math/big" {
			t := p.Type("Int").Object().Type()
			i.extra["big.Int"] = t
			return t
		}
	}
	unsupported("math/big not imported")
	return nil
}

func pow2(n uint) *big.Int { return new(big.Int).Lsh(big.NewInt(1), n) }

// ---- mode-generic primitive operations ----

func (i *interpreter) bConst(v *big.Int) *Term {
	if w := i.bigW(); w > 0 {
		return i.ts.BVConstBig(v, w)
	}
	return i.ts.IntConst(v)
}

// bFromBV converts a machine integer term/value to the big encoding.
func (i *interpreter) bFromBV(v value, signed bool) *Term {
	ts := i.ts
	w := i.bigW()
	_ = w
	t, sym := v.(*Term)
	if !sym {
		if signed {
			return i.bConst(big.NewInt(asInt64(v)))
		}
		return i.bConst(new(big.Int).SetUint64(uint64(asInt64(v))))
	}
	if w > 0 {
		if signed {
			return ts.SExt(t, w)
		}
		return ts.ZExt(t, w)
	}
	if w < 0 {
		return i.absBV2Int(t, signed)
	}
	if signed {
		return ts.BV2IntSigned(t)
	}
	return ts.BV2Int(t)
}

// absBV2Int (mode -1): the unsigned value of a bit-vector term as an *uninterpreted*
// function into Int, constrained only by facts that hold for the real conversion: range,
// and pairwise order/equality agreement with every other converted term of that width.
// This over-approximates bv2nat (more behaviours), so unsat answers stay valid; a sat answer
// may be spurious and is only reported after native replay.
func (i *interpreter) absBV2Int(t *Term, signed bool) *Term {
	ts := i.ts
	w := t.Sort.W
	// peel zero-extension: the value is that of the narrower term
	for t.Op == OZExt {
		t = t.Args[0]
	}
	tw := t.Sort.W
	app := ts.App("bvval"+itoa(tw), IntSort, t)
	seen, _ := i.extra["absbv"].(map[int]bool)
	if seen == nil {
		seen = map[int]bool{}
		i.extra["absbv"] = seen
	}
	if !seen[app.ID] {
		seen[app.ID] = true
		i.assertPC(ts.And(ts.ICmp(OILE, ts.IntConst64(0), app), ts.ICmp(OILT, app, ts.IntConst(pow2(uint(tw))))))
		prev, _ := i.extra["absbvlist"].([]*Term)
		for _, p := range prev {
			pt := p.Args[0]
			a, b := pt, t
			// compare at the wider width
			mw := a.Sort.W
			if b.Sort.W > mw {
				mw = b.Sort.W
			}
			a, b = ts.ZExt(a, mw), ts.ZExt(b, mw)
			i.assertPC(ts.Eq(ts.BvCmp(OBvULT, a, b), ts.ICmp(OILT, p, app)))
			i.assertPC(ts.Eq(ts.Eq(a, b), ts.Eq(p, app)))
		}
		i.extra["absbvlist"] = append(prev, app)
	}
	if signed && tw == w {
		neg := ts.BvCmp(OBvSLT, t, ts.BVConst(0, w))
		return ts.Ite(neg, ts.IntBin(OISub, app, ts.IntConst(pow2(uint(w)))), app)
	}
	return app
}

func itoa(n int) string { return strconv.Itoa(n) }

func (i *interpreter) bNeg(a *Term) *Term {
	if i.bigW() > 0 {
		return i.ts.BvNeg(a)
	}
	return i.ts.INeg(a)
}

func (i *interpreter) bIsNeg(a *Term) *Term {
	if w := i.bigW(); w > 0 {
		return i.ts.BvCmp(OBvSLT, a, i.ts.BVConst(0, w))
	}
	return i.ts.ICmp(OILT, a, i.ts.IntConst64(0))
}

func (i *interpreter) bAbs(a *Term) *Term {
	if i.bigW() > 0 {
		return i.ts.Ite(i.bIsNeg(a), i.ts.BvNeg(a), a)
	}
	return i.ts.IAbs(a)
}

func (i *interpreter) bLt(a, b *Term) *Term {
	if i.bigW() > 0 {
		return i.ts.BvCmp(OBvSLT, a, b)
	}
	return i.ts.ICmp(OILT, a, b)
}

// overflowGuard: in BV mode the result of an arithmetic operation must be representable.
func (i *interpreter) bNoOverflow(cond *Term, what string) {
	if cond.IsTrue() {
		return
	}
	if !i.decide(cond) {
		unsupported("big.Int model: %s overflows the %d-bit encoding (raise verifBigMode)", what, i.bigW())
	}
}

func (i *interpreter) bAdd(a, b *Term) *Term {
	ts := i.ts
	if w := i.bigW(); w > 0 {
		r := ts.BvBin(OBvAdd, a, b)
		// signed overflow iff operands have equal sign and the result's sign differs
		sa, sb, sr := i.bIsNeg(a), i.bIsNeg(b), i.bIsNeg(r)
		i.bNoOverflow(ts.Or(ts.Not(ts.Eq(sa, sb)), ts.Eq(sa, sr)), "Add")
		return r
	}
	return ts.IntBin(OIAdd, a, b)
}

func (i *interpreter) bSub(a, b *Term) *Term {
	ts := i.ts
	if w := i.bigW(); w > 0 {
		r := ts.BvBin(OBvSub, a, b)
		sa, sb, sr := i.bIsNeg(a), i.bIsNeg(b), i.bIsNeg(r)
		i.bNoOverflow(ts.Or(ts.Eq(sa, sb), ts.Eq(sa, sr)), "Sub")
		return r
	}
	return ts.IntBin(OISub, a, b)
}

func (i *interpreter) bShl(a *Term, n uint) *Term {
	ts := i.ts
	if w := i.bigW(); w > 0 {
		if int(n) >= w {
			i.bNoOverflow(ts.Eq(a, ts.BVConst(0, w)), "Lsh")
			return ts.BVConst(0, w)
		}
		r := ts.BvBin(OBvShl, a, ts.BVConstBig(big.NewInt(int64(n)), w))
		back := ts.BvBin(OBvAShr, r, ts.BVConstBig(big.NewInt(int64(n)), w))
		i.bNoOverflow(ts.Eq(back, a), "Lsh")
		return r
	}
	return ts.IntBin(OIMul, a, ts.IntConst(pow2(n)))
}

func (i *interpreter) bShr(a *Term, n uint) *Term {
	ts := i.ts
	if w := i.bigW(); w > 0 {
		if int(n) >= w {
			n = uint(w - 1)
		}
		return ts.BvBin(OBvAShr, a, ts.BVConstBig(big.NewInt(int64(n)), w))
	}
	// arithmetic shift = floor division (SMT div by a positive constant is floor)
	return ts.IntBin(OIDiv, a, ts.IntConst(pow2(n)))
}

// bLow returns the low wOut bits of |a| >> sh as a bit-vector.
func (i *interpreter) bLowOfAbs(a *Term, sh uint, wOut int) *Term {
	ts := i.ts
	abs := i.bAbs(a)
	if w := i.bigW(); w > 0 {
		if int(sh) >= w {
			return ts.BVConst(0, wOut)
		}
		hi := int(sh) + wOut - 1
		if hi >= w {
			return ts.ZExt(ts.Extract(abs, w-1, int(sh)), wOut)
		}
		return ts.Extract(abs, hi, int(sh))
	}
	return ts.Int2BV(ts.IntBin(OIDiv, abs, ts.IntConst(pow2(sh))), wOut)
}

// bAbsLtPow2: |a| < 2^n
func (i *interpreter) bAbsLtPow2(a *Term, n uint) *Term {
	ts := i.ts
	abs := i.bAbs(a)
	if w := i.bigW(); w > 0 {
		if int(n) >= w-1 {
			return ts.True
		}
		return ts.BvCmp(OBvULT, abs, ts.BVConstBig(pow2(n), w))
	}
	return ts.ICmp(OILT, abs, ts.IntConst(pow2(n)))
}

// bigByteLen forks over the byte length of |x| (0..maxBigBytes).
func (i *interpreter) bigByteLen(a *Term) int {
	if a.IsConst() {
		return len(new(big.Int).Abs(i.constSigned(a)).Bytes())
	}
	for n := 0; n <= maxBigBytes; n++ {
		if i.decide(i.bAbsLtPow2(a, uint(8*n))) {
			return n
		}
	}
	unsupported("big.Int wider than %d bytes", maxBigBytes)
	return 0
}

func (i *interpreter) constSigned(a *Term) *big.Int {
	if a.Sort.K == KInt {
		return a.Big
	}
	return toSigned(constBig(a), a.Sort.W)
}

func (i *interpreter) signTerm(x *Term) *Term {
	ts := i.ts
	zero := i.bConst(big.NewInt(0))
	return ts.Ite(i.bIsNeg(x), ts.BVConst(^uint64(0), 64),
		ts.Ite(ts.Eq(x, zero), ts.BVConst(0, 64), ts.BVConst(1, 64)))
}

func (i *interpreter) cmpTerm(a, b *Term) *Term {
	ts := i.ts
	return ts.Ite(i.bLt(a, b), ts.BVConst(^uint64(0), 64),
		ts.Ite(ts.Eq(a, b), ts.BVConst(0, 64), ts.BVConst(1, 64)))
}

func init() {
	intT := types.Typ[types.Int]
	reg := func(name string, f externalFn) { externals["(*math/big.Int)."+name] = f }

	verifIntrinsics["verifBigMode"] = func(fr *frame, a []value) value {
		fr.i.extra["bigmode"] = int(asInt64(a[0]))
		return nil
	}
	externals["math/big.NewInt"] = func(fr *frame, a []value) value {
		return fr.i.bigNew(fr.i.bFromBV(a[0], true))
	}
	reg("Set", func(fr *frame, a []value) value { return fr.i.bigSet(a[0], fr.i.bigGet(a[1])) })
	reg("SetInt64", func(fr *frame, a []value) value { return fr.i.bigSet(a[0], fr.i.bFromBV(a[1], true)) })
	reg("SetUint64", func(fr *frame, a []value) value { return fr.i.bigSet(a[0], fr.i.bFromBV(a[1], false)) })
	reg("SetBytes", func(fr *frame, a []value) value {
		i := fr.i
		ts := i.ts
		bs := a[1].([]value)
		if w := i.bigW(); w > 0 {
			if 8*len(bs) >= w {
				unsupported("big.SetBytes of %d bytes exceeds the %d-bit encoding", len(bs), w)
			}
			if len(bs) == 0 {
				return i.bigSet(a[0], ts.BVConst(0, w))
			}
			acc := i.toTerm(bs[0])
			for _, b := range bs[1:] {
				acc = ts.Concat(acc, i.toTerm(b))
			}
			return i.bigSet(a[0], ts.ZExt(acc, w))
		}
		acc := ts.IntConst64(0)
		n := len(bs)
		for k, b := range bs {
			acc = ts.IntBin(OIAdd, acc, ts.IntBin(OIMul, i.bFromBV(b, false), ts.IntConst(pow2(uint(8*(n-1-k))))))
		}
		return i.bigSet(a[0], acc)
	})
	reg("Sign", func(fr *frame, a []value) value {
		return fr.i.norm(fr.i.signTerm(fr.i.bigGet(a[0])), intT)
	})
	reg("Neg", func(fr *frame, a []value) value { return fr.i.bigSet(a[0], fr.i.bNeg(fr.i.bigGet(a[1]))) })
	reg("Abs", func(fr *frame, a []value) value { return fr.i.bigSet(a[0], fr.i.bAbs(fr.i.bigGet(a[1]))) })
	reg("Add", func(fr *frame, a []value) value {
		return fr.i.bigSet(a[0], fr.i.bAdd(fr.i.bigGet(a[1]), fr.i.bigGet(a[2])))
	})
	reg("Sub", func(fr *frame, a []value) value {
		return fr.i.bigSet(a[0], fr.i.bSub(fr.i.bigGet(a[1]), fr.i.bigGet(a[2])))
	})
	reg("Mul", func(fr *frame, a []value) value {
		i := fr.i
		if i.bigW() > 0 {
			unsupported("big.Mul in bit-vector mode")
		}
		return i.bigSet(a[0], i.ts.IntBin(OIMul, i.bigGet(a[1]), i.bigGet(a[2])))
	})
	divLike := func(euclid, quotient bool) externalFn {
		return func(fr *frame, a []value) value {
			i := fr.i
			ts := i.ts
			if i.bigW() > 0 {
				unsupported("big division in bit-vector mode")
			}
			x, y := i.bigGet(a[1]), i.bigGet(a[2])
			if i.truth(i.normBool(ts.Eq(y, ts.IntConst64(0)))) {
				panic(targetPanic{iface{t: i.runtimeErrorString, v: "division by zero"}})
			}
			var r *Term
			if euclid {
				if quotient {
					r = ts.IntBin(OIDiv, x, y)
				} else {
					r = ts.IntBin(OIMod, x, y)
				}
			} else {
				// truncated: q = sign(x)*sign(y) * (|x| div |y|), r = x - q*y
				q := ts.IntBin(OIDiv, ts.IAbs(x), ts.IAbs(y))
				neg := ts.Not(ts.Eq(ts.ICmp(OILT, x, ts.IntConst64(0)), ts.ICmp(OILT, y, ts.IntConst64(0))))
				q = ts.Ite(neg, ts.INeg(q), q)
				if quotient {
					r = q
				} else {
					r = ts.IntBin(OISub, x, ts.IntBin(OIMul, q, y))
				}
			}
			return i.bigSet(a[0], r)
		}
	}
	reg("Div", divLike(true, true))
	reg("Mod", divLike(true, false))
	reg("Quo", divLike(false, true))
	reg("Rem", divLike(false, false))
	reg("Lsh", func(fr *frame, a []value) value {
		i := fr.i
		n := uint(i.concreteInt(a[2], "big.Lsh count"))
		return i.bigSet(a[0], i.bShl(i.bigGet(a[1]), n))
	})
	reg("Rsh", func(fr *frame, a []value) value {
		i := fr.i
		n := uint(i.concreteInt(a[2], "big.Rsh count"))
		return i.bigSet(a[0], i.bShr(i.bigGet(a[1]), n))
	})
	reg("Cmp", func(fr *frame, a []value) value {
		i := fr.i
		return i.norm(i.cmpTerm(i.bigGet(a[0]), i.bigGet(a[1])), intT)
	})
	reg("CmpAbs", func(fr *frame, a []value) value {
		i := fr.i
		return i.norm(i.cmpTerm(i.bAbs(i.bigGet(a[0])), i.bAbs(i.bigGet(a[1]))), intT)
	})
	reg("Bytes", func(fr *frame, a []value) value {
		i := fr.i
		x := i.bigGet(a[0])
		n := i.bigByteLen(x)
		out := make([]value, n)
		for k := 0; k < n; k++ {
			out[k] = i.norm(i.bLowOfAbs(x, uint(8*(n-1-k)), 8), types.Typ[types.Uint8])
		}
		return out
	})
	reg("Bits", func(fr *frame, a []value) value {
		i := fr.i
		x := i.bigGet(a[0])
		nb := i.bigByteLen(x)
		nw := (nb + 7) / 8
		out := make([]value, nw)
		for k := 0; k < nw; k++ {
			out[k] = i.norm(i.bLowOfAbs(x, uint(64*k), 64), types.Typ[types.Uint])
		}
		return out
	})
	reg("BitLen", func(fr *frame, a []value) value {
		i := fr.i
		x := i.bigGet(a[0])
		if x.IsConst() {
			return new(big.Int).Abs(i.constSigned(x)).BitLen()
		}
		for n := 0; n <= 8*maxBigBytes; n++ {
			if i.decide(i.bAbsLtPow2(x, uint(n))) {
				return n
			}
		}
		unsupported("BitLen beyond %d", 8*maxBigBytes)
		return nil
	})
	toMachine := func(t types.Type) externalFn {
		return func(fr *frame, a []value) value {
			i := fr.i
			x := i.bigGet(a[0])
			if i.bigW() > 0 {
				return i.norm(i.ts.Extract(x, 63, 0), t)
			}
			return i.norm(i.ts.Int2BV(x, 64), t)
		}
	}
	reg("Int64", toMachine(types.Typ[types.Int64]))
	reg("Uint64", toMachine(types.Typ[types.Uint64]))
	reg("IsInt64", func(fr *frame, a []value) value {
		i := fr.i
		x := i.bigGet(a[0])
		lo := i.bConst(new(big.Int).Neg(pow2(63)))
		hi := i.bConst(pow2(63))
		return i.normBool(i.ts.And(i.ts.Not(i.bLt(x, lo)), i.bLt(x, hi)))
	})
	reg("String", func(fr *frame, a []value) value {
		x := fr.i.bigGet(a[0])
		if x.IsConst() {
			return fr.i.constSigned(x).String()
		}
		return "<symbolic big.Int>"
	})
	reg("SetString", func(fr *frame, a []value) value {
		i := fr.i
		s, ok := a[1].(string)
		if !ok {
			unsupported("big.SetString with symbolic string")
		}
		base := int(asInt64(a[2]))
		v, good := new(big.Int).SetString(s, base)
		if !good {
			return tuple{(*value)(nil), false}
		}
		return tuple{i.bigSet(a[0], i.bConst(v)), true}
	})
}
