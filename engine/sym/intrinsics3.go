package sym

func init() {
	verifIntrinsics["verifNativeRepeat"] = func(fr *frame, args []value) value { return 1 }
}
