package sym

func init() {
	// verifAssertAll(label, conds...): one query for the conjunction
	verifIntrinsics["verifAssertAll"] = func(fr *frame, args []value) value {
		i := fr.i
		conds, _ := args[1].([]value)
		var acc value = true
		for _, c := range conds {
			acc = i.andv(acc, c)
		}
		return verifIntrinsics["verifAssert"](fr, []value{args[0], acc})
	}
}
