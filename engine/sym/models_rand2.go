package sym

import "go/types"

func init() {
	zeroResultFuncs["math/rand.NewSource"] = true
	// rand.New returns a non-nil *Rand (zero struct); its methods are modelled in external.go
	externals["math/rand.New"] = func(fr *frame, a []value) value {
		for _, p := range fr.i.prog.AllPackages() {
			if p.Pkg.Path() == "math/rand" {
				if t := p.Type("Rand"); t != nil {
					cell := zero(t.Object().Type())
					return &cell
				}
			}
		}
		unsupported("math/rand.Rand type not found")
		return nil
	}
	_ = types.Typ
}
