package sym

func init() {
	// zero-copy string/[]byte conversions implemented with unsafe in chain33
	externals["github.com/33cn/chain33/types.Str2Bytes"] = func(fr *frame, a []value) value {
		return append([]value{}, strVals(a[0])...)
	}
	externals["github.com/33cn/chain33/types.Bytes2Str"] = func(fr *frame, a []value) value {
		bs, _ := a[0].([]value)
		return mkStr(bs)
	}
}
