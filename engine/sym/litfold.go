package sym

// Constant composite literals: go/ssa lowers `[]byte{c0, c1, ...}` to one IndexAddr+Store
// pair per element. Package initialisers of generated code (protobuf raw descriptors)
// contain tens of thousands of them and they are re-run on every explored path. litFold
// recognises heap array allocations all of whose element stores are constants, builds the
// array once, and lets frames copy it and skip the element stores. Semantics unchanged.

import (
	"go/types"
	"sync"

	"golang.org/x/tools/go/ssa"
)

type litInfo struct {
	skip map[ssa.Instruction]bool
	tmpl map[*ssa.Alloc]array
}

var litFolds sync.Map // *ssa.Function -> *litInfo

const litFoldMin = 16

func litFold(fn *ssa.Function) *litInfo {
	if v, ok := litFolds.Load(fn); ok {
		return v.(*litInfo)
	}
	var info *litInfo
	for _, b := range fn.Blocks {
		for _, in := range b.Instrs {
			al, ok := in.(*ssa.Alloc)
			if !ok || !al.Heap {
				continue
			}
			at, ok := mustDeref(al.Type()).Underlying().(*types.Array)
			if !ok || at.Len() < litFoldMin {
				continue
			}
			if _, basic := at.Elem().Underlying().(*types.Basic); !basic {
				continue
			}
			refs := al.Referrers()
			if refs == nil {
				continue
			}
			good := true
			var skips []ssa.Instruction
			tmpl := zero(at).(array)
			for _, r := range *refs {
				switch r := r.(type) {
				case *ssa.IndexAddr:
					idx, okc := r.Index.(*ssa.Const)
					rr := r.Referrers()
					if !okc || rr == nil || len(*rr) != 1 || r.Block() != al.Block() {
						good = false
						break
					}
					st, oks := (*rr)[0].(*ssa.Store)
					if !oks || st.Addr != r || st.Block() != al.Block() {
						good = false
						break
					}
					c, okv := st.Val.(*ssa.Const)
					if !okv || c.Value == nil {
						good = false
						break
					}
					k := int(idx.Int64())
					if k < 0 || k >= len(tmpl) {
						good = false
						break
					}
					tmpl[k] = constValue(c)
					skips = append(skips, r, st)
				case *ssa.Slice:
					// reading use
				default:
					good = false
				}
				if !good {
					break
				}
			}
			if !good || len(skips) == 0 {
				continue
			}
			if info == nil {
				info = &litInfo{skip: map[ssa.Instruction]bool{}, tmpl: map[*ssa.Alloc]array{}}
			}
			info.tmpl[al] = tmpl
			for _, s := range skips {
				info.skip[s] = true
			}
		}
	}
	litFolds.Store(fn, info)
	return info
}
