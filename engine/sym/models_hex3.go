package sym

import "encoding/hex"

// hex.EncodeToString over symbolic bytes uses the same digit terms as common.ToHex (hexOf),
// and equality of two strings made of such digits (and concrete lower-case hex digits) is
// decided on the underlying nibbles, so that "hex(x) == hex(y)" becomes "x == y" (and the
// hash-slice rule of hashconst.go can apply) instead of a comparison of ite-chains.

func init() {
	externals["encoding/hex.EncodeToString"] = func(fr *frame, a []value) value {
		bs := a[0].([]value)
		if c, ok := concreteBytes(bs); ok {
			return hex.EncodeToString(c)
		}
		return mkStr(fr.i.hexOf(bs))
	}
}

// hexStrEq returns the nibble-level equality of two equally long strings when at least one
// character is a symbolic hex digit produced by hexOf and every other character is such a
// digit or a concrete lower-case hex digit; nil otherwise.
func (i *interpreter) hexStrEq(xs, ys []value) *Term {
	if len(xs) == 0 || len(xs) != len(ys) {
		return nil
	}
	nibs := i.hexNibs()
	if len(nibs) == 0 {
		return nil
	}
	symbolic := false
	conv := func(vs []value) []*Term {
		out := make([]*Term, len(vs))
		for k, v := range vs {
			switch c := v.(type) {
			case uint8:
				switch {
				case c >= '0' && c <= '9':
					out[k] = i.ts.BVConst(uint64(c-'0'), 4)
				case c >= 'a' && c <= 'f':
					out[k] = i.ts.BVConst(uint64(c-'a'+10), 4)
				default:
					return nil
				}
			case *Term:
				t, ok := nibs[c]
				if !ok {
					return nil
				}
				symbolic = true
				out[k] = t
			default:
				return nil
			}
		}
		return out
	}
	a, b := conv(xs), conv(ys)
	if a == nil || b == nil || !symbolic {
		return nil
	}
	cat := func(ts []*Term) *Term {
		acc := ts[0]
		for _, t := range ts[1:] {
			acc = i.ts.Concat(acc, t)
		}
		return acc
	}
	return i.ts.Eq(cat(a), cat(b))
}
