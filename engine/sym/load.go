package sym

import (
	"fmt"
	"go/types"
	"os"
	"runtime"
	"strings"

	"golang.org/x/tools/go/packages"
	"golang.org/x/tools/go/ssa"
)

type Loaded struct {
	Prog  *ssa.Program
	Pkgs  map[string]*ssa.Package // by import path (source-loaded roots)
	Roots []*packages.Package
}

// Load type-checks roots (from source, with overlay) in dir and builds SSA with bodies
// for the roots only; every other dependency is created from export data (no bodies).
func Load(dir string, roots []string, overlay map[string][]byte, tags string) (*Loaded, error) {
	env := append(os.Environ(), "GOFLAGS=-mod=mod", "GOPROXY=off", "GOSUMDB=off", "GOTOOLCHAIN=local")
	cfg := &packages.Config{
		Mode: packages.NeedName | packages.NeedFiles | packages.NeedCompiledGoFiles | packages.NeedImports |
			packages.NeedTypes | packages.NeedTypesSizes | packages.NeedSyntax | packages.NeedTypesInfo,
		Dir:     dir,
		Overlay: overlay,
		Env:     env,
	}
	if tags != "" {
		cfg.BuildFlags = []string{"-tags=" + tags}
	}
	pkgs, err := packages.Load(cfg, roots...)
	if err != nil {
		return nil, err
	}
	var errs []string
	for _, p := range pkgs {
		for _, e := range p.Errors {
			errs = append(errs, p.PkgPath+": "+e.Error())
		}
	}
	if len(errs) > 0 {
		return nil, fmt.Errorf("package load errors:\n%s", strings.Join(errs, "\n"))
	}
	prog := ssa.NewProgram(pkgs[0].Fset, ssa.InstantiateGenerics|ssa.SanityCheckFunctions&0)
	l := &Loaded{Prog: prog, Pkgs: map[string]*ssa.Package{}, Roots: pkgs}
	created := map[*types.Package]bool{}
	for _, p := range pkgs {
		if p.Types == nil || p.IllTyped {
			return nil, fmt.Errorf("package %s is ill-typed", p.PkgPath)
		}
		sp := prog.CreatePackage(p.Types, p.Syntax, p.TypesInfo, true)
		created[p.Types] = true
		l.Pkgs[p.PkgPath] = sp
	}
	var visit func(tp *types.Package)
	visit = func(tp *types.Package) {
		for _, imp := range tp.Imports() {
			if !created[imp] {
				created[imp] = true
				prog.CreatePackage(imp, nil, nil, true)
				visit(imp)
			}
		}
	}
	for _, p := range pkgs {
		visit(p.Types)
	}
	prog.Build()
	// syntax trees and type-checker side tables are no longer needed: a smaller live
	// heap makes every garbage collection during exploration cheaper
	for _, p := range pkgs {
		p.Syntax, p.TypesInfo = nil, nil
	}
	l.Roots = nil
	runtime.GC()
	if initProf {
		var ms runtime.MemStats
		runtime.ReadMemStats(&ms)
		fmt.Fprintf(os.Stderr, "[initprof] live heap after load: %d MB\n", ms.HeapAlloc>>20)
	}
	return l, nil
}

// SSAFunction is exported for the CLI's override table.
type SSAFunction = ssa.Function
