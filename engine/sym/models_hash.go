package sym

// Hash functions: concrete input => the real function (native); symbolic input => an
// uninterpreted function per (name, input length). With Params["hash_injective"]=1 each
// application additionally gets an inverse (inv(H(x)) = x), i.e. collision-freeness over
// the applications of the query, and a range tag (htag(H(x)) = class) so that harnesses
// can state "this value is not a hash output" (verifHashTag).

import (
	"crypto/sha256"
	"fmt"
	"go/types"
	"math/big"

	"golang.org/x/crypto/ripemd160"
	"golang.org/x/crypto/sha3"
)

// bytesTerm concatenates byte values into one bit-vector term (big-endian), merging
// adjacent extracts of the same term and runs of constants.
func (i *interpreter) bytesTerm(bs []value) *Term {
	ts := i.ts
	var chunks []*Term
	k := 0
	for k < len(bs) {
		switch b := bs[k].(type) {
		case uint8:
			// run of constants (up to 8 bytes per chunk to stay within uint64)
			var v uint64
			n := 0
			for k < len(bs) && n < 8 {
				c, ok := bs[k].(uint8)
				if !ok {
					break
				}
				v = v<<8 | uint64(c)
				n++
				k++
			}
			chunks = append(chunks, ts.BVConst(v, 8*n))
		case *Term:
			if b.Op == OExtract && b.Sort.W == 8 {
				src := b.Args[0]
				hi := int(b.Val >> 16)
				lo := int(b.Val & 0xffff)
				j := k + 1
				for j < len(bs) {
					nb, ok := bs[j].(*Term)
					if !ok || nb.Op != OExtract || nb.Args[0] != src || int(nb.Val>>16) != lo-1 || nb.Sort.W != 8 {
						break
					}
					lo = int(nb.Val & 0xffff)
					j++
				}
				chunks = append(chunks, ts.Extract(src, hi, lo))
				k = j
			} else {
				chunks = append(chunks, b)
				k++
			}
		default:
			panic(fmt.Sprintf("bytesTerm: element %T", b))
		}
	}
	if len(chunks) == 0 {
		panic("bytesTerm: empty")
	}
	acc := chunks[0]
	for _, c := range chunks[1:] {
		acc = ts.Concat(acc, c)
	}
	return acc
}

// termBytes splits a bit-vector term into bytes (big-endian).
func (i *interpreter) termBytes(t *Term) []value {
	n := t.Sort.W / 8
	out := make([]value, n)
	for k := 0; k < n; k++ {
		hi := 8*(n-1-k) + 7
		out[k] = i.norm(i.ts.Extract(t, hi, hi-7), types.Typ[types.Uint8])
	}
	return out
}

func (i *interpreter) hashModel(name string, in []value, outLen int, real func([]byte) []byte) []value {
	if conc, ok := concreteBytes(in); ok {
		out := real(conc)
		i.ts.KnownHash[string(out)] = knownHash{fn: fmt.Sprintf("%s_%d", name, len(conc)), in: append([]byte(nil), conc...)}
		return bytesToVals(out)
	}
	if len(in) == 0 {
		return bytesToVals(real(nil))
	}
	ts := i.ts
	arg := i.bytesTerm(in)
	fn := fmt.Sprintf("%s_%d", name, len(in))
	if i.cfg.Params["hash_injective"] == 1 {
		// collision-freeness is applied by rewriting in TermStore.Eq
		ts.Injective[fn] = true
	}
	app := ts.App(fn, BV(8*outLen), arg)
	return i.termBytes(app)
}

func realSha256(b []byte) []byte { h := sha256.Sum256(b); return h[:] }
func realSha2Sum(b []byte) []byte {
	t := sha256.Sum256(b)
	h := sha256.Sum256(t[:])
	return h[:]
}
func realKeccak256(b []byte) []byte {
	d := sha3.NewLegacyKeccak256()
	d.Write(b)
	return d.Sum(nil)
}
func realRimp160(b []byte) []byte {
	s := sha256.Sum256(b)
	r := ripemd160.New()
	r.Write(s[:])
	return r.Sum(nil)
}

func init() {
	const common = "github.com/33cn/chain33/common."
	externals[common+"Sha256"] = func(fr *frame, a []value) value {
		return fr.i.hashModel("sha256", a[0].([]value), 32, realSha256)
	}
	externals[common+"Sha2Sum"] = func(fr *frame, a []value) value {
		return fr.i.hashModel("sha2sum", a[0].([]value), 32, realSha2Sum)
	}
	externals[common+"Sha3"] = func(fr *frame, a []value) value {
		return fr.i.hashModel("keccak256", a[0].([]value), 32, realKeccak256)
	}
	externals[common+"Rimp160"] = func(fr *frame, a []value) value {
		return fr.i.hashModel("rimp160", a[0].([]value), 20, realRimp160)
	}
	externals["crypto/sha256.Sum256"] = func(fr *frame, a []value) value {
		return array(fr.i.hashModel("sha256", a[0].([]value), 32, realSha256))
	}
	// verifWide(name, n) []byte: n bytes backed by ONE bit-vector variable (cheap for hashes)
	verifIntrinsics["verifWide"] = func(fr *frame, a []value) value {
		i := fr.i
		n := int(asInt64(a[1]))
		name := argString(a[0])
		if vec := i.cfg.ConcreteVec; vec != nil {
			out := make([]value, n)
			for k := range out {
				var v uint64
				if p := len(i.nondets); p < len(vec) {
					v = vec[p]
				}
				i.nondets = append(i.nondets, nondetRec{Name: name, Conc: v, Kind: "conc"})
				out[k] = uint8(v)
			}
			return out
		}
		vn := fmt.Sprintf("n%d_%s", len(i.nondets), sanitize(name))
		term := i.ts.Var(vn, BV(8*n))
		i.nondets = append(i.nondets, nondetRec{Name: name, Term: term, Kind: "wide", Bytes: n})
		return i.termBytes(term)
	}
	// verifHashTag(b, 0): assume b is not the output of any modelled hash application
	verifIntrinsics["verifHashTag"] = func(fr *frame, a []value) value {
		i := fr.i
		bs := a[0].([]value)
		if _, ok := concreteBytes(bs); ok {
			return nil
		}
		t := i.bytesTerm(bs)
		if asInt64(a[1]) == 0 {
			i.ts.NonRange[t.ID] = true
		}
		return nil
	}
}

// expandWide turns a model value of a wide variable into n big-endian bytes.
func expandWide(v *big.Int, n int) []uint64 {
	out := make([]uint64, n)
	b := v.Bytes()
	for k := 0; k < len(b) && k < n; k++ {
		out[n-1-k] = uint64(b[len(b)-1-k])
	}
	return out
}
