package sym

// Maps: ordered association list. Keys that are concrete basic values / pointers are
// additionally indexed by a native Go map. A lookup with (or against) a symbolic key
// forks on equality with each entry (decide).

import (
	"fmt"
	"go/types"
)

type mapEntry struct {
	key  value
	val  value
	dead bool
}

type smap struct {
	keyType types.Type
	entries []*mapEntry
	index   map[value]*mapEntry // concrete hashable keys only
	nsym    int                 // number of live entries with non-indexable keys
	live    int
}

func makeMap(kt types.Type) *smap {
	return &smap{keyType: kt, index: make(map[value]*mapEntry)}
}

// hashableKey reports whether k can be used as a native map key with Go's ==
// coinciding with the target's ==.
func hashableKey(k value) bool {
	switch k.(type) {
	case bool, int, int8, int16, int32, int64, uint, uint8, uint16, uint32, uint64, uintptr,
		float32, float64, string, *value, *channel:
		return true
	}
	return false
}

func (m *smap) find(i *interpreter, k value) *mapEntry {
	if m == nil {
		return nil
	}
	hk := hashableKey(k)
	if hk {
		if e, ok := m.index[k]; ok {
			return e
		}
		if m.nsym == 0 {
			return nil
		}
	}
	for _, e := range m.entries {
		if e.dead {
			continue
		}
		if hk && hashableKey(e.key) {
			continue // both concrete and not equal (index miss)
		}
		eq := i.eqv(m.keyType, e.key, k)
		if i.truth(eq) {
			return e
		}
	}
	return nil
}

func (m *smap) lookup(i *interpreter, k value) (value, bool) {
	e := m.find(i, k)
	if e == nil {
		return nil, false
	}
	return e.val, true
}

func (m *smap) insert(i *interpreter, k, v value) {
	if e := m.find(i, k); e != nil {
		e.val = v
		return
	}
	e := &mapEntry{key: copyVal(k), val: v}
	m.entries = append(m.entries, e)
	m.live++
	if hashableKey(k) {
		m.index[k] = e
	} else {
		m.nsym++
	}
}

func (m *smap) delete(i *interpreter, k value) {
	e := m.find(i, k)
	if e == nil {
		return
	}
	e.dead = true
	m.live--
	if hashableKey(e.key) {
		delete(m.index, e.key)
	} else {
		m.nsym--
	}
	// compact occasionally
	if len(m.entries) > 32 && m.live < len(m.entries)/2 {
		out := m.entries[:0:0]
		for _, e := range m.entries {
			if !e.dead {
				out = append(out, e)
			}
		}
		m.entries = out
	}
}

func (m *smap) len() int {
	if m == nil {
		return 0
	}
	return m.live
}

func (m *smap) clear() {
	for _, e := range m.entries {
		e.dead = true
	}
	m.entries = nil
	m.index = make(map[value]*mapEntry)
	m.nsym, m.live = 0, 0
}

// iterator: snapshot of live entries, in insertion order or a chosen permutation.
func (i *interpreter) mapIter(m *smap) iter {
	if m == nil {
		return &mapIter{}
	}
	var snap []*mapEntry
	for _, e := range m.entries {
		if !e.dead {
			snap = append(snap, e)
		}
	}
	if i.mapOrderFork && len(snap) > 1 && i.cfg.Params["maporder_all"] != 1 {
		// default: every rotation in both directions (2n orders): every entry is visited
		// first and last at least once. Params["maporder_all"]=1 explores all n! orders.
		n := len(snap)
		k := i.choose(2*n, "maporder")
		i.internalChoices++
		perm := make([]*mapEntry, 0, n)
		for j := 0; j < n; j++ {
			if k < n {
				perm = append(perm, snap[(k+j)%n])
			} else {
				perm = append(perm, snap[((k-n)-j+2*n)%n])
			}
		}
		return &mapIter{m: m, snap: perm}
	}
	if i.mapOrderFork && len(snap) > 1 {
		if len(snap) > 5 {
			unsupported("map iteration order fork over %d entries", len(snap))
		}
		// choose a permutation by successive choices
		perm := make([]*mapEntry, 0, len(snap))
		rest := append([]*mapEntry(nil), snap...)
		for len(rest) > 1 {
			k := i.choose(len(rest), "maporder")
			i.internalChoices++
			perm = append(perm, rest[k])
			rest = append(rest[:k], rest[k+1:]...)
		}
		perm = append(perm, rest[0])
		snap = perm
	}
	return &mapIter{m: m, snap: snap}
}

func (m *smap) String() string { return fmt.Sprintf("smap(%d)", m.len()) }
