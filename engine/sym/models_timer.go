package sym

// time.AfterFunc / (*time.Timer).Reset / Stop on the harness-controlled clock. Timers are
// kept in a side table keyed by the *Timer cell; verifAdvanceClock(sec) moves the clock
// forward and runs the functions of due timers (deadline order) synchronously, the way the
// runtime would have run them in their own goroutine by that time.

import (
	"go/types"
	"sort"
)

type timerRec struct {
	cell     *value
	deadline value // int64 or 64-bit *Term (seconds on the harness clock)
	active   bool
	f        value
	seq      int
}

func (i *interpreter) timers() map[*value]*timerRec {
	if m, ok := i.extra["timers"].(map[*value]*timerRec); ok {
		return m
	}
	m := map[*value]*timerRec{}
	i.extra["timers"] = m
	return m
}

func (i *interpreter) clockNow() value { return i.clock() }

func (i *interpreter) addSec(a, b value) value {
	return i.binop(tokenADDt, typInt64, typInt64, a, b)
}

// leqSec decides a <= b (forks when symbolic).
func (i *interpreter) leqSec(a, b value) bool {
	return !i.truth(i.binop(tokenGTR, typInt64, typInt64, a, b))
}

// durSeconds converts a time.Duration value to seconds of the virtual clock. A symbolic
// duration must have the shape seconds * time.Second (what `time.Second * time.Duration(n)`
// produces); the product is assumed not to overflow.
func durSeconds(v value) value {
	switch d := v.(type) {
	case int64:
		return (d + 999999999) / 1000000000
	case *Term:
		if d.Op == OBvMul && len(d.Args) == 2 {
			for k := 0; k < 2; k++ {
				if c := d.Args[k]; c.IsConst() && c.Big == nil && c.Val == 1000000000 {
					return d.Args[1-k]
				}
			}
		}
	}
	unsupported("timer with a symbolic duration that is not seconds * time.Second")
	return nil
}

func init() {
	externals["time.AfterFunc"] = func(fr *frame, a []value) value {
		i := fr.i
		var T types.Type
		if fn := fr.i.prog.ImportedPackage("time"); fn != nil {
			T = fn.Type("Timer").Type()
		}
		var cell value
		if T != nil {
			cell = zero(T)
		} else {
			cell = structure{}
		}
		p := &cell
		m := i.timers()
		m[p] = &timerRec{cell: p, deadline: i.addSec(i.clockNow(), durSeconds(a[0])), active: true, f: a[1], seq: len(m)}
		return p
	}
	externals["(*time.Timer).Reset"] = func(fr *frame, a []value) value {
		i := fr.i
		t, ok := i.timers()[a[0].(*value)]
		if !ok {
			unsupported("Reset of a timer not created by time.AfterFunc")
		}
		was := t.active
		t.active = true
		t.deadline = i.addSec(i.clockNow(), durSeconds(a[1]))
		return was
	}
	externals["(*time.Timer).Stop"] = func(fr *frame, a []value) value {
		t, ok := fr.i.timers()[a[0].(*value)]
		if !ok {
			unsupported("Stop of a timer not created by time.AfterFunc")
		}
		was := t.active
		t.active = false
		return was
	}
	// verifAdvanceClock(sec int64): advance the virtual clock, firing due timers
	verifIntrinsics["verifAdvanceClock"] = func(fr *frame, a []value) value {
		i := fr.i
		target := i.addSec(i.clockNow(), a[0])
		for {
			// the active timer with the smallest deadline, if it is due
			var first *timerRec
			var recs []*timerRec
			for _, t := range i.timers() {
				if t.active {
					recs = append(recs, t)
				}
			}
			sort.Slice(recs, func(x, y int) bool { return recs[x].seq < recs[y].seq })
			for _, t := range recs {
				if first == nil || !i.leqSec(first.deadline, t.deadline) {
					first = t
				}
			}
			if first == nil || !i.leqSec(first.deadline, target) {
				break
			}
			first.active = false
			if !i.leqSec(first.deadline, i.clockNow()) {
				i.extra["clock"] = first.deadline
			}
			call(i, fr, 0, first.f, nil)
		}
		i.extra["clock"] = target
		return nil
	}
}
