package sym

import "golang.org/x/crypto/ripemd160"

func realRipemd160(b []byte) []byte {
	r := ripemd160.New()
	r.Write(b)
	return r.Sum(nil)
}

func init() {
	const cc = "github.com/33cn/chain33/common/crypto."
	externals[cc+"Sha256"] = func(fr *frame, a []value) value {
		return fr.i.hashModel("sha256", a[0].([]value), 32, realSha256)
	}
	externals[cc+"Ripemd160"] = func(fr *frame, a []value) value {
		return fr.i.hashModel("ripemd160", a[0].([]value), 20, realRipemd160)
	}
}

func init() {
	// common/crypto's CSPRNG seeding (AES based) is irrelevant to every checked property
	externals["(*github.com/33cn/chain33/common/crypto.randInfo).MixEntropy"] = func(fr *frame, a []value) value { return nil }
}
