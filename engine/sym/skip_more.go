package sym

func init() {
	// util's initialiser only builds test private keys (needs the crypto drivers)
	skipInits["github.com/33cn/chain33/util.init"] = true
}
