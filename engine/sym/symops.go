package sym

// Symbolic-aware versions of the SSA operators. Concrete operands fall through to the
// native implementations in ops.go.

import (
	"bytes"
	"fmt"
	"go/token"
	"go/types"
	"os"

	"golang.org/x/tools/go/ssa"
)

// ---------------------------------------------------------------- type info

func basicOf(t types.Type) *types.Basic {
	b, _ := t.Underlying().(*types.Basic)
	return b
}

// intInfo returns width and signedness for an integer (or bool: w=0) basic kind.
func intInfo(k types.BasicKind) (w int, signed bool, ok bool) {
	switch k {
	case types.Int, types.Int64:
		return 64, true, true
	case types.Int8:
		return 8, true, true
	case types.Int16:
		return 16, true, true
	case types.Int32, types.UntypedRune:
		return 32, true, true
	case types.UntypedInt:
		return 64, true, true
	case types.Uint, types.Uint64, types.Uintptr:
		return 64, false, true
	case types.Uint8:
		return 8, false, true
	case types.Uint16:
		return 16, false, true
	case types.Uint32:
		return 32, false, true
	}
	return 0, false, false
}

// toTerm lifts a concrete scalar to a term (terms pass through).
func (i *interpreter) toTerm(v value) *Term {
	ts := i.ts
	switch v := v.(type) {
	case *Term:
		return v
	case bool:
		return ts.Bool(v)
	case int:
		return ts.BVConst(uint64(v), 64)
	case int8:
		return ts.BVConst(uint64(v), 8)
	case int16:
		return ts.BVConst(uint64(v), 16)
	case int32:
		return ts.BVConst(uint64(v), 32)
	case int64:
		return ts.BVConst(uint64(v), 64)
	case uint:
		return ts.BVConst(uint64(v), 64)
	case uint8:
		return ts.BVConst(uint64(v), 8)
	case uint16:
		return ts.BVConst(uint64(v), 16)
	case uint32:
		return ts.BVConst(uint64(v), 32)
	case uint64:
		return ts.BVConst(v, 64)
	case uintptr:
		return ts.BVConst(uint64(v), 64)
	}
	unsupported("toTerm: cannot lift %T to a term", v)
	return nil
}

// norm turns a constant term back into the native value of static type t.
func (i *interpreter) norm(x *Term, t types.Type) value {
	if !x.IsConst() {
		return x
	}
	if x.Sort.K == KBool {
		return x.Val == 1
	}
	if x.Big != nil {
		return x
	}
	b := basicOf(t)
	if b == nil {
		return x
	}
	v := x.Val
	switch b.Kind() {
	case types.Int, types.UntypedInt:
		return int(v)
	case types.Int8:
		return int8(v)
	case types.Int16:
		return int16(v)
	case types.Int32, types.UntypedRune:
		return int32(v)
	case types.Int64:
		return int64(v)
	case types.Uint:
		return uint(v)
	case types.Uint8:
		return uint8(v)
	case types.Uint16:
		return uint16(v)
	case types.Uint32:
		return uint32(v)
	case types.Uint64:
		return v
	case types.Uintptr:
		return uintptr(v)
	}
	return x
}

func (i *interpreter) normBool(x *Term) value {
	if x.IsConst() {
		return x.Val == 1
	}
	return x
}

// ---------------------------------------------------------------- decisions

// truth returns the concrete truth of a boolean value, forking if it is symbolic.
func (i *interpreter) truth(v value) bool {
	switch v := v.(type) {
	case bool:
		return v
	case *Term:
		return i.decide(v)
	}
	panic(fmt.Sprintf("truth: %T", v))
}

// concreteInt requires a concrete integer.
func (i *interpreter) concreteInt(v value, what string) int64 {
	if t, ok := v.(*Term); ok {
		return i.concretizeRange(t, -1<<62, 1<<62, what)
	}
	return asInt64(v)
}

// concretizeRange returns a concrete value of v in [lo,hi], forking over the feasible
// values; out of range raises the corresponding run-time panic.
func (i *interpreter) concretizeRange(v value, lo, hi int64, what string) int64 {
	t, ok := v.(*Term)
	if !ok {
		n := asInt64(v)
		if n < lo || n > hi {
			i.runtimePanic(fmt.Sprintf("%s out of range [%d] with bound %d", what, n, hi))
		}
		return n
	}
	return i.enumerate(t, lo, hi, what)
}

// enumerate forks over the values of t by asking the solver for one model value at a
// time: decide(t == v) ? v : next.
func (i *interpreter) enumerate(t *Term, lo, hi int64, what string) int64 {
	w := t.Sort.W
	for n := 0; ; n++ {
		if n > i.cfg.MaxEnum {
			unsupported("enumeration of symbolic %s exceeds %d values", what, i.cfg.MaxEnum)
		}
		v, ok := i.pickValue(t)
		if !ok {
			panic(abortPath{abAssume, "infeasible in enumerate"})
		}
		c := i.ts.BVConst(v, w)
		if i.decide(i.ts.Eq(t, c)) {
			sv := int64(v)
			if w < 64 {
				sv = int64(v) // callers pass unsigned-extended or already 64-bit values
			}
			if sv < lo || sv > hi {
				i.runtimePanic(fmt.Sprintf("%s out of range [%d] (bounds %d..%d)", what, sv, lo, hi))
			}
			return sv
		}
	}
}

// index returns a concrete in-range index (forking over 0..n-1 when symbolic) or raises
// the index-out-of-range panic.
func (i *interpreter) index(idx value, n int) int {
	t, ok := idx.(*Term)
	if !ok {
		k := asInt64(idx)
		if k < 0 || k >= int64(n) {
			i.runtimePanic(fmt.Sprintf("index out of range [%d] with length %d", k, n))
		}
		return int(k)
	}
	w := t.Sort.W
	for k := 0; k < n; k++ {
		if i.decide(i.ts.Eq(t, i.ts.BVConst(uint64(k), w))) {
			return k
		}
	}
	i.runtimePanic(fmt.Sprintf("index out of range [symbolic] with length %d", n))
	return 0
}

// indexRead reads xs[idx]; a symbolic index over scalar elements becomes an ite chain.
func (i *interpreter) indexRead(xs []value, idx value) value {
	t, ok := idx.(*Term)
	if !ok {
		return xs[i.index(idx, len(xs))]
	}
	scalar := true
	for _, x := range xs {
		switch x.(type) {
		case *Term, bool, int, int8, int16, int32, int64, uint, uint8, uint16, uint32, uint64, uintptr:
		default:
			scalar = false
		}
	}
	if !scalar || len(xs) == 0 {
		return xs[i.index(idx, len(xs))]
	}
	w := t.Sort.W
	inRange := i.ts.BvCmp(OBvULT, t, i.ts.BVConst(uint64(len(xs)), w))
	if !i.decide(inRange) {
		i.runtimePanic(fmt.Sprintf("index out of range [symbolic] with length %d", len(xs)))
	}
	res := i.toTerm(xs[len(xs)-1])
	for k := len(xs) - 2; k >= 0; k-- {
		res = i.ts.Ite(i.ts.Eq(t, i.ts.BVConst(uint64(k), w)), i.toTerm(xs[k]), res)
	}
	return res
}

// ---------------------------------------------------------------- operators

func (i *interpreter) binop(op token.Token, tx, ty types.Type, x, y value) value {
	switch op {
	case token.EQL:
		return i.eqnil(tx, x, y)
	case token.NEQ:
		return i.notv(i.eqnil(tx, x, y))
	}
	_, xs := x.(*Term)
	_, ys := y.(*Term)
	_, xss := x.(symstr)
	_, yss := y.(symstr)
	if !xs && !ys && !xss && !yss {
		// concrete; raise target run-time errors explicitly
		switch op {
		case token.QUO, token.REM:
			if b := basicOf(tx); b != nil && b.Info()&types.IsInteger != 0 && asInt64(y) == 0 {
				i.runtimePanic("integer divide by zero")
			}
		case token.SHL, token.SHR:
			if _, nonneg := asUnsigned(y); !nonneg {
				i.runtimePanic("negative shift amount")
			}
		}
		return concBinop(op, tx, x, y)
	}
	if xss || yss || (basicOf(tx) != nil && basicOf(tx).Info()&types.IsString != 0) {
		return i.strBinop(op, x, y)
	}
	b := basicOf(tx)
	if b == nil {
		unsupported("symbolic binop %s on %s", op, tx)
	}
	ts := i.ts
	if b.Info()&types.IsBoolean != 0 {
		unsupported("symbolic boolean binop %s", op)
	}
	w, signed, ok := intInfo(b.Kind())
	if !ok {
		unsupported("symbolic binop %s on non-integer %s", op, tx)
	}
	a, c := i.toTerm(x), i.toTerm(y)
	switch op {
	case token.SHL, token.SHR:
		by := basicOf(ty)
		wy, sy, _ := intInfo(by.Kind())
		if sy {
			if i.decide(ts.BvCmp(OBvSLT, c, ts.BVConst(0, wy))) {
				i.runtimePanic("negative shift amount")
			}
		}
		// bring the amount to width w, saturating
		var amt *Term
		if wy <= w {
			amt = ts.ZExt(c, w)
		} else {
			big := ts.BvCmp(OBvULE, ts.BVConst(uint64(w), wy), c)
			amt = ts.Ite(big, ts.BVConst(uint64(w), w), ts.Extract(c, w-1, 0))
		}
		var r *Term
		if op == token.SHL {
			r = ts.BvBin(OBvShl, a, amt)
		} else if signed {
			r = ts.BvBin(OBvAShr, a, amt)
		} else {
			r = ts.BvBin(OBvLShr, a, amt)
		}
		return i.norm(r, tx)
	}
	if a.Sort != c.Sort {
		panic(fmt.Sprintf("binop %s: operand sorts differ: %v %v (%s)", op, a.Sort, c.Sort, tx))
	}
	var r *Term
	switch op {
	case token.ADD:
		r = ts.BvBin(OBvAdd, a, c)
	case token.SUB:
		r = ts.BvBin(OBvSub, a, c)
	case token.MUL:
		r = ts.BvBin(OBvMul, a, c)
	case token.QUO, token.REM:
		if i.truth(i.normBool(ts.Eq(c, ts.BVConst(0, w)))) {
			i.runtimePanic("integer divide by zero")
		}
		switch {
		case op == token.QUO && signed:
			r = ts.BvBin(OBvSDiv, a, c)
		case op == token.QUO:
			r = ts.BvBin(OBvUDiv, a, c)
		case signed:
			r = ts.BvBin(OBvSRem, a, c)
		default:
			r = ts.BvBin(OBvURem, a, c)
		}
	case token.AND:
		r = ts.BvBin(OBvAnd, a, c)
	case token.OR:
		r = ts.BvBin(OBvOr, a, c)
	case token.XOR:
		r = ts.BvBin(OBvXor, a, c)
	case token.AND_NOT:
		r = ts.BvBin(OBvAnd, a, ts.BvNot(c))
	case token.LSS:
		return i.normBool(i.cmp(signed, false, a, c))
	case token.LEQ:
		return i.normBool(i.cmp(signed, true, a, c))
	case token.GTR:
		return i.normBool(i.cmp(signed, false, c, a))
	case token.GEQ:
		return i.normBool(i.cmp(signed, true, c, a))
	default:
		unsupported("symbolic binop %s", op)
	}
	return i.norm(r, tx)
}

func (i *interpreter) cmp(signed, orEq bool, a, b *Term) *Term {
	switch {
	case signed && orEq:
		return i.ts.BvCmp(OBvSLE, a, b)
	case signed:
		return i.ts.BvCmp(OBvSLT, a, b)
	case orEq:
		return i.ts.BvCmp(OBvULE, a, b)
	}
	return i.ts.BvCmp(OBvULT, a, b)
}

func (i *interpreter) notv(v value) value {
	switch v := v.(type) {
	case bool:
		return !v
	case *Term:
		return i.normBool(i.ts.Not(v))
	}
	panic("notv")
}

// strCompare returns a term (BV64, value -1/0/1) for the lexicographic comparison.
func (i *interpreter) strCompare(xs, ys []value) *Term {
	ts := i.ts
	n := len(xs)
	if len(ys) < n {
		n = len(ys)
	}
	var tail *Term
	switch {
	case len(xs) < len(ys):
		tail = ts.BVConst(^uint64(0), 64)
	case len(xs) > len(ys):
		tail = ts.BVConst(1, 64)
	default:
		tail = ts.BVConst(0, 64)
	}
	res := tail
	for k := n - 1; k >= 0; k-- {
		a, b := i.toTerm(xs[k]), i.toTerm(ys[k])
		res = ts.Ite(ts.BvCmp(OBvULT, a, b), ts.BVConst(^uint64(0), 64),
			ts.Ite(ts.BvCmp(OBvULT, b, a), ts.BVConst(1, 64), res))
	}
	return res
}

func (i *interpreter) strBinop(op token.Token, x, y value) value {
	ts := i.ts
	switch op {
	case token.ADD:
		return mkStr(append(append([]value{}, strVals(x)...), strVals(y)...))
	}
	c := i.strCompare(strVals(x), strVals(y))
	zero := ts.BVConst(0, 64)
	switch op {
	case token.LSS:
		return i.normBool(ts.BvCmp(OBvSLT, c, zero))
	case token.LEQ:
		return i.normBool(ts.BvCmp(OBvSLE, c, zero))
	case token.GTR:
		return i.normBool(ts.BvCmp(OBvSLT, zero, c))
	case token.GEQ:
		return i.normBool(ts.BvCmp(OBvSLE, zero, c))
	}
	unsupported("string binop %s", op)
	return nil
}

// eqnil returns the comparison x == y using the equivalence relation
// appropriate for type t. If t is a reference type, at most one of x or y may be nil.
func (i *interpreter) eqnil(t types.Type, x, y value) value {
	switch t.Underlying().(type) {
	case *types.Map, *types.Signature, *types.Slice:
		return isNilRef(x) == isNilRef(y) && (isNilRef(x) || sameRef(x, y))
	}
	return i.eqv(t, x, y)
}

func isNilRef(x value) bool {
	switch x := x.(type) {
	case *smap:
		return x == nil
	case *ssa.Function:
		return x == nil
	case *closure:
		return x == nil
	case []value:
		return x == nil
	case *ssa.Builtin:
		return x == nil
	}
	panic(fmt.Sprintf("isNilRef: illegal dynamic type: %T", x))
}

func sameRef(x, y value) bool {
	// only reachable for comparisons against nil in well-typed programs
	return false
}

func (i *interpreter) unop(instr *ssa.UnOp, x value) value {
	switch instr.Op {
	case token.ARROW: // receive
		ch := x.(*channel)
		v, ok := i.chanRecv(ch, instr.X.Type())
		if instr.CommaOk {
			return tuple{v, ok}
		}
		return v
	case token.MUL:
		p := x.(*value)
		if p == nil {
			i.runtimePanic("invalid memory address or nil pointer dereference")
		}
		return load(mustDeref(instr.X.Type()), p)
	}
	t, ok := x.(*Term)
	if !ok {
		return concUnop(instr, x)
	}
	switch instr.Op {
	case token.NOT:
		return i.normBool(i.ts.Not(t))
	case token.SUB:
		return i.norm(i.ts.BvNeg(t), instr.X.Type())
	case token.XOR:
		return i.norm(i.ts.BvNot(t), instr.X.Type())
	}
	unsupported("symbolic unary op %s", instr.Op)
	return nil
}

// ---------------------------------------------------------------- conversions

func (i *interpreter) conv(t_dst, t_src types.Type, x value) value {
	ut_src := t_src.Underlying()
	ut_dst := t_dst.Underlying()
	switch xs := x.(type) {
	case *Term:
		bs, bd := basicOf(t_src), basicOf(t_dst)
		if bs == nil || bd == nil {
			unsupported("symbolic conversion %s -> %s", t_src, t_dst)
		}
		if bd.Info()&types.IsString != 0 {
			// integer -> string (rune)
			v := i.concreteInt(i.signExtend64(xs, bs), "rune")
			return string(rune(v))
		}
		ws, ss, ok1 := intInfo(bs.Kind())
		wd, _, ok2 := intInfo(bd.Kind())
		if !ok1 || !ok2 {
			unsupported("symbolic conversion %s -> %s", t_src, t_dst)
		}
		_ = ws
		var r *Term
		switch {
		case wd <= xs.Sort.W:
			r = i.ts.Extract(xs, wd-1, 0)
		case ss:
			r = i.ts.SExt(xs, wd)
		default:
			r = i.ts.ZExt(xs, wd)
		}
		return i.norm(r, t_dst)
	case symstr:
		switch ut_dst := ut_dst.(type) {
		case *types.Slice:
			if k := ut_dst.Elem().Underlying().(*types.Basic).Kind(); k == types.Byte {
				out := make([]value, len(xs))
				copy(out, xs)
				return out
			}
			unsupported("symbolic string -> []rune")
		case *types.Basic:
			if ut_dst.Kind() == types.String {
				return xs
			}
		}
		unsupported("conversion of symbolic string to %s", t_dst)
	case []value:
		if sl, ok := ut_src.(*types.Slice); ok {
			if b, ok := sl.Elem().Underlying().(*types.Basic); ok && b.Kind() == types.Byte {
				if bd := basicOf(t_dst); bd != nil && bd.Kind() == types.String {
					return mkStr(xs)
				}
			}
		}
	case string:
		if sl, ok := ut_dst.(*types.Slice); ok {
			if b, ok := sl.Elem().Underlying().(*types.Basic); ok && b.Kind() == types.Byte {
				out := make([]value, len(xs))
				for k := 0; k < len(xs); k++ {
					out[k] = xs[k]
				}
				return out
			}
		}
	}
	return concConv(t_dst, t_src, x)
}

func (i *interpreter) signExtend64(x *Term, b *types.Basic) *Term {
	_, s, _ := intInfo(b.Kind())
	if s {
		return i.ts.SExt(x, 64)
	}
	return i.ts.ZExt(x, 64)
}

func (i *interpreter) sliceToArrayPointer(t_dst, t_src types.Type, x value) value {
	if _, ok := t_src.Underlying().(*types.Slice); ok {
		if ptr, ok := t_dst.Underlying().(*types.Pointer); ok {
			if arr, ok := ptr.Elem().Underlying().(*types.Array); ok {
				x := x.([]value)
				if arr.Len() > int64(len(x)) {
					i.runtimePanic("cannot convert slice to array pointer: length too short")
				}
				if x == nil {
					return zero(t_dst)
				}
				v := value(array(x[:arr.Len()]))
				return &v
			}
		}
	}
	panic(fmt.Sprintf("unsupported conversion: %s  -> %s, dynamic type %T", t_src, t_dst, x))
}

// ---------------------------------------------------------------- slices, maps

// slice returns x[lo:hi:max].  Any of lo, hi and max may be nil.
func (i *interpreter) slice(instr *ssa.Slice, x, lo, hi, max value) value {
	var Len, Cap int
	switch x := x.(type) {
	case string:
		Len = len(x)
		Cap = Len
	case symstr:
		Len = len(x)
		Cap = Len
	case []value:
		Len = len(x)
		Cap = cap(x)
	case *value: // *array
		if x == nil {
			i.runtimePanic("invalid memory address or nil pointer dereference")
		}
		a := (*x).(array)
		Len = len(a)
		Cap = cap(a)
	}
	m := int64(Cap)
	if max != nil {
		m = i.concretizeRange(max, 0, int64(Cap), "slice bounds (max)")
	}
	h := int64(Len)
	if hi != nil {
		h = i.concretizeRange(hi, 0, m, "slice bounds (high)")
	}
	l := int64(0)
	if lo != nil {
		l = i.concretizeRange(lo, 0, h, "slice bounds (low)")
	}
	if l > h {
		i.runtimePanic(fmt.Sprintf("slice bounds out of range [%d:%d]", l, h))
	}
	switch x := x.(type) {
	case string:
		return x[l:h]
	case symstr:
		return mkStr([]value(x[l:h]))
	case []value:
		if x == nil {
			return x
		}
		return x[l:h:m]
	case *value: // *array
		a := (*x).(array)
		return []value(a)[l:h:m]
	}
	panic(fmt.Sprintf("slice: unexpected X type: %T", x))
}

// lookup returns x[idx] where x is a map or string.
func (i *interpreter) lookup(instr *ssa.Lookup, x, idx value) value {
	switch x := x.(type) {
	case *smap:
		v, ok := x.lookup(i, idx)
		if !ok {
			v = zero(instr.X.Type().Underlying().(*types.Map).Elem())
		} else {
			v = copyVal(v)
		}
		if instr.CommaOk {
			return tuple{v, ok}
		}
		return v
	case string:
		return i.indexRead(strVals(x), idx)
	case symstr:
		return i.indexRead([]value(x), idx)
	}
	panic(fmt.Sprintf("unexpected x type in Lookup: %T", x))
}

func (i *interpreter) rangeIter(x value, t types.Type) iter {
	switch x := x.(type) {
	case *smap:
		return i.mapIter(x)
	case string:
		return &stringIter{i: i, conc: x, isC: true}
	case symstr:
		return &stringIter{i: i, s: []value(x)}
	}
	panic(fmt.Sprintf("cannot range over %T", x))
}

// ---------------------------------------------------------------- builtins

func callBuiltin(caller *frame, callpos token.Pos, fn *ssa.Builtin, args []value) value {
	i := caller.i
	switch fn.Name() {
	case "append":
		if len(args) == 1 {
			return args[0]
		}
		arg0 := args[0].([]value)
		switch s := args[1].(type) {
		case string:
			for k := 0; k < len(s); k++ {
				arg0 = append(arg0, s[k])
			}
			return arg0
		case symstr:
			return append(arg0, []value(s)...)
		}
		src := args[1].([]value)
		if len(src) == 0 {
			return arg0
		}
		// elements are values: copy aggregates
		for _, e := range src {
			arg0 = append(arg0, copyVal(e))
		}
		return arg0

	case "copy": // copy([]T, []T) int or copy([]byte, string) int
		dst := args[0].([]value)
		var src []value
		switch s := args[1].(type) {
		case string, symstr:
			src = strVals(s)
		case []value:
			src = s
		}
		n := len(dst)
		if len(src) < n {
			n = len(src)
		}
		tmp := make([]value, n)
		for k := 0; k < n; k++ {
			tmp[k] = copyVal(src[k])
		}
		copy(dst, tmp)
		return n

	case "close": // close(chan T)
		ch := args[0].(*channel)
		if ch == nil {
			panic(targetPanic{iface{t: i.runtimeErrorString, v: "close of nil channel"}})
		}
		if ch.closed {
			panic(targetPanic{iface{t: i.runtimeErrorString, v: "close of closed channel"}})
		}
		ch.closed = true
		return nil

	case "delete": // delete(map[K]value, K)
		m := args[0].(*smap)
		if m != nil {
			m.delete(i, args[1])
		}
		return nil

	case "clear":
		switch x := args[0].(type) {
		case *smap:
			if x != nil {
				x.clear()
			}
		case []value:
			for k := range x {
				x[k] = zeroLike(x[k])
			}
		}
		return nil

	case "print", "println": // print(any, ...)
		ln := fn.Name() == "println"
		var buf bytes.Buffer
		for k, arg := range args {
			if k > 0 && ln {
				buf.WriteRune(' ')
			}
			buf.WriteString(toString(arg))
		}
		if ln {
			buf.WriteRune('\n')
		}
		if i.cfg.Trace {
			os.Stderr.Write(buf.Bytes())
		}
		return nil

	case "len":
		switch x := args[0].(type) {
		case string:
			return len(x)
		case symstr:
			return len(x)
		case array:
			return len(x)
		case *value:
			return len((*x).(array))
		case []value:
			return len(x)
		case *smap:
			return x.len()
		case *channel:
			if x == nil {
				return 0
			}
			return len(x.buf)
		default:
			panic(fmt.Sprintf("len: illegal operand: %T", x))
		}

	case "cap":
		switch x := args[0].(type) {
		case array:
			return cap(x)
		case *value:
			return cap((*x).(array))
		case []value:
			return cap(x)
		case *channel:
			if x == nil {
				return 0
			}
			return x.cap
		default:
			panic(fmt.Sprintf("cap: illegal operand: %T", x))
		}

	case "min", "max":
		x := args[0]
		t := fn.Type().(*types.Signature).Params().At(0).Type()
		for _, y := range args[1:] {
			var less value
			if fn.Name() == "min" {
				less = i.binop(token.LSS, t, t, y, x)
			} else {
				less = i.binop(token.GTR, t, t, y, x)
			}
			if i.truth(less) {
				x = y
			}
		}
		return x

	case "real":
		switch c := args[0].(type) {
		case complex64:
			return real(c)
		case complex128:
			return real(c)
		}
	case "imag":
		switch c := args[0].(type) {
		case complex64:
			return imag(c)
		case complex128:
			return imag(c)
		}
	case "complex":
		switch f := args[0].(type) {
		case float32:
			return complex(f, args[1].(float32))
		case float64:
			return complex(f, args[1].(float64))
		}

	case "panic":
		// ssa.Panic handles most cases; this is only for "go
		// panic" or "defer panic".
		panic(targetPanic{args[0]})

	case "recover":
		return doRecover(caller)

	case "ssa:wrapnilchk":
		recv := args[0]
		if recv.(*value) == nil {
			recvType := args[1]
			methodName := args[2]
			i.runtimePanic(fmt.Sprintf("value method (%s).%s called using nil *%s pointer",
				recvType, methodName, recvType))
		}
		return recv

	case "ssa:deferstack":
		return &caller.defers
	}

	panic("unknown built-in: " + fn.Name())
}

func zeroLike(v value) value {
	switch v := v.(type) {
	case *Term:
		if v.Sort.K == KBool {
			return false
		}
		unsupported("clear() on symbolic slice")
	case bool:
		return false
	case int:
		return int(0)
	case int8:
		return int8(0)
	case int16:
		return int16(0)
	case int32:
		return int32(0)
	case int64:
		return int64(0)
	case uint:
		return uint(0)
	case uint8:
		return uint8(0)
	case uint16:
		return uint16(0)
	case uint32:
		return uint32(0)
	case uint64:
		return uint64(0)
	case string, symstr:
		return ""
	case *value:
		return (*value)(nil)
	case []value:
		return []value(nil)
	case iface:
		return iface{}
	}
	unsupported("clear(): element %T", v)
	return nil
}

// ---------------------------------------------------------------- channels, goroutines

func (i *interpreter) chanSend(ch *channel, v value) {
	if ch == nil {
		unsupported("send on nil channel (blocks forever)")
	}
	if ch.closed {
		panic(targetPanic{iface{t: i.runtimeErrorString, v: "send on closed channel"}})
	}
	if len(ch.buf) >= ch.cap && ch.cap > 0 && i.goDepth == 0 {
		unsupported("send on full channel (would block)")
	}
	// A goroutine sending on a full (or unbuffered) channel would block until the receiver
	// drains it; it is run to completion instead and its items are queued in order.
	// unbuffered channels are treated as a rendez-vous queue of unbounded size: the
	// receiver runs later on the same (sequential) schedule.
	ch.buf = append(ch.buf, copyVal(v))
}

func (i *interpreter) chanRecv(ch *channel, t types.Type) (value, bool) {
	if ch == nil {
		unsupported("receive from nil channel (blocks forever)")
	}
	for len(ch.buf) == 0 && len(i.pending) > 0 {
		i.runOnePending()
	}
	if len(ch.buf) > 0 {
		v := ch.buf[0]
		ch.buf = ch.buf[1:]
		return v, true
	}
	if ch.closed {
		return zero(t.Underlying().(*types.Chan).Elem()), false
	}
	unsupported("receive from empty channel (would block)")
	return nil, false
}

func (i *interpreter) selectInstr(fr *frame, instr *ssa.Select) value {
	// first ready case in source order; default if none; blocking with none ready is unsupported
	i.runPendingIfNoneReady(fr, instr)
	chosen := -1
	var recv value
	recvOk := false
	for k, st := range instr.States {
		ch := fr.get(st.Chan).(*channel)
		if ch == nil {
			continue
		}
		if st.Dir == types.RecvOnly {
			if len(ch.buf) > 0 || ch.closed {
				chosen = k
				recv, recvOk = i.chanRecv(ch, st.Chan.Type())
				break
			}
		} else {
			if ch.cap == 0 || len(ch.buf) < ch.cap {
				chosen = k
				i.chanSend(ch, fr.get(st.Send))
				break
			}
		}
	}
	if chosen < 0 && instr.Blocking {
		unsupported("blocking select with no ready case in %s", fr.fn)
	}
	r := tuple{chosen, recvOk}
	for k, st := range instr.States {
		if st.Dir == types.RecvOnly {
			var v value
			if k == chosen && recvOk {
				v = recv
			} else {
				v = zero(st.Chan.Type().Underlying().(*types.Chan).Elem())
			}
			r = append(r, v)
		}
	}
	return r
}

func (i *interpreter) runPendingIfNoneReady(fr *frame, instr *ssa.Select) {
	for _, st := range instr.States {
		ch, _ := fr.get(st.Chan).(*channel)
		if ch == nil {
			continue
		}
		if st.Dir == types.RecvOnly && (len(ch.buf) > 0 || ch.closed) {
			return
		}
	}
	i.runPending()
}

type pendingGo struct {
	fn   value
	args []value
	pos  token.Pos
}

// spawn handles a `go` statement. Mode "sync" runs the goroutine to completion at the
// spawn point; mode "defer" queues it and runs queued goroutines (in spawn or reverse
// order) when the spawner next waits (WaitGroup.Wait, channel receive, end of harness).
func (i *interpreter) spawn(fr *frame, instr *ssa.Go, fn value, args []value) {
	if i.goMode == goSync {
		i.runGoroutine(pendingGo{fn, args, instr.Pos()})
		return
	}
	i.pending = append(i.pending, pendingGo{fn, args, instr.Pos()})
}

func (i *interpreter) runGoroutine(g pendingGo) {
	i.goDepth++
	defer func() { i.goDepth-- }()
	call(i, nil, g.pos, g.fn, g.args)
}

func (i *interpreter) runOnePending() {
	var g pendingGo
	if i.goMode == goDeferReverse {
		g = i.pending[len(i.pending)-1]
		i.pending = i.pending[:len(i.pending)-1]
	} else {
		g = i.pending[0]
		i.pending = i.pending[1:]
	}
	i.runGoroutine(g)
}

func (i *interpreter) runPending() {
	for len(i.pending) > 0 {
		i.runOnePending()
	}
}
