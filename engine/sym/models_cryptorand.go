package sym

func init() {
	// crypto/rand.Read: fills with a fixed pattern (callers only seed caches / nonces with it)
	externals["crypto/rand.Read"] = func(fr *frame, a []value) value {
		bs := a[0].([]value)
		for k := range bs {
			bs[k] = uint8(0x5a)
		}
		return tuple{len(bs), iface{}}
	}
}
