package sym

// Protocol-buffer messages: wire-format encoder/decoder driven by the `protobuf:"..."`
// struct tags found through go/types, so that golang/protobuf (reflection, unsafe) never
// has to be interpreted. Concrete fields are encoded canonically (byte-identical to
// proto.Marshal in deterministic mode for the supported field kinds). A *symbolic* integer
// field is always emitted, as a fixed 10-byte (non-minimal but valid) varint: the encoding
// then decodes to the same message but differs from the canonical bytes in length. With
// Params["pb_exact"]=1 symbolic integers are instead encoded canonically by forking over
// their length class.
//
// Decode first looks the byte slice up in a provenance table (the slice returned by an
// earlier Encode, unmodified): then the field snapshot is restored directly. Any other
// byte string goes through the real wire parser (forking on symbolic tag/length bytes).

import (
	"fmt"
	"go/types"
	"reflect"
	"sort"
	"strconv"
	"strings"
)

type pbField struct {
	idx    int // struct field index
	num    int
	wire   string // varint, bytes, fixed32, fixed64, zigzag32, zigzag64, group
	rep    bool
	packed bool
	oneof  bool
	typ    types.Type
	name   string
	keyTag string
	valTag string
}

type pbBlob struct {
	typ   types.Type
	snap  structure
	bytes []value
}

func (i *interpreter) pbFields(st *types.Struct) []pbField {
	cache, _ := i.extra["pbfields"].(map[*types.Struct][]pbField)
	if cache == nil {
		cache = map[*types.Struct][]pbField{}
		i.extra["pbfields"] = cache
	}
	if f, ok := cache[st]; ok {
		return f
	}
	var out []pbField
	for k := 0; k < st.NumFields(); k++ {
		tag := reflect.StructTag(st.Tag(k))
		if on := tag.Get("protobuf_oneof"); on != "" {
			out = append(out, pbField{idx: k, oneof: true, typ: st.Field(k).Type(), name: st.Field(k).Name()})
			continue
		}
		pt := tag.Get("protobuf")
		if pt == "" {
			continue
		}
		parts := strings.Split(pt, ",")
		f := pbField{idx: k, wire: parts[0], typ: st.Field(k).Type(), name: st.Field(k).Name()}
		f.num, _ = strconv.Atoi(parts[1])
		for _, p := range parts[2:] {
			switch p {
			case "rep":
				f.rep = true
			case "packed":
				f.packed = true
			}
		}
		f.keyTag = tag.Get("protobuf_key")
		f.valTag = tag.Get("protobuf_val")
		// proto3 repeated scalars are packed by default
		if f.rep && f.wire != "bytes" && f.wire != "group" {
			f.packed = true
		}
		out = append(out, f)
	}
	sort.Slice(out, func(a, b int) bool { return out[a].num < out[b].num })
	cache[st] = out
	return out
}

// isPBMessage reports whether t (a struct type) is a generated protobuf message.
func isPBStruct(st *types.Struct) bool {
	if st.NumFields() == 0 {
		return false
	}
	for k := 0; k < st.NumFields(); k++ {
		if strings.Contains(st.Tag(k), "protobuf") {
			return true
		}
	}
	if st.Field(0).Name() == "state" {
		return true
	}
	return false
}

func pbStructOf(t types.Type) (*types.Struct, types.Type) {
	if p, ok := t.Underlying().(*types.Pointer); ok {
		t = p.Elem()
	}
	st, _ := t.Underlying().(*types.Struct)
	return st, t
}

func (i *interpreter) pbVarint(v uint64) []value {
	var out []value
	for v >= 0x80 {
		out = append(out, uint8(v)|0x80)
		v >>= 7
	}
	return append(out, uint8(v))
}

// pbSymVarint encodes a 64-bit term.
func (i *interpreter) pbSymVarint(t *Term) []value {
	ts := i.ts
	if t.Sort.W < 64 {
		panic("pbSymVarint: need 64-bit term")
	}
	if i.cfg.Params["pb_exact"] == 1 {
		// canonical: fork over the length class
		n := 10
		for k := 1; k < 10; k++ {
			if i.decide(ts.BvCmp(OBvULT, t, ts.BVConst(uint64(1)<<uint(7*k), 64))) {
				n = k
				break
			}
		}
		out := make([]value, n)
		for k := 0; k < n; k++ {
			b := ts.Extract(ts.BvBin(OBvLShr, t, ts.BVConst(uint64(7*k), 64)), 7, 0)
			b = ts.BvBin(OBvAnd, b, ts.BVConst(0x7f, 8))
			if k < n-1 {
				b = ts.BvBin(OBvOr, b, ts.BVConst(0x80, 8))
			}
			out[k] = i.norm(b, types.Typ[types.Uint8])
		}
		return out
	}
	out := make([]value, 10)
	for k := 0; k < 10; k++ {
		b := ts.Extract(ts.BvBin(OBvLShr, t, ts.BVConst(uint64(7*k), 64)), 7, 0)
		b = ts.BvBin(OBvAnd, b, ts.BVConst(0x7f, 8))
		if k < 9 {
			b = ts.BvBin(OBvOr, b, ts.BVConst(0x80, 8))
		}
		out[k] = i.norm(b, types.Typ[types.Uint8])
	}
	return out
}

func (i *interpreter) pbKey(num int, wt int) []value {
	return i.pbVarint(uint64(num)<<3 | uint64(wt))
}

// scalar64 widens an integer/bool value to a 64-bit value (uint64) or term, per Go->proto rules.
func (i *interpreter) pbScalar64(v value, t types.Type, wire string) (conc uint64, sym *Term) {
	b := basicOf(t)
	if b == nil {
		unsupported("protobuf scalar of type %s", t)
	}
	if tm, ok := v.(*Term); ok {
		if tm.Sort.K == KBool {
			return 0, i.ts.Ite(tm, i.ts.BVConst(1, 64), i.ts.BVConst(0, 64))
		}
		_, signed, _ := intInfo(b.Kind())
		var x *Term
		if signed {
			x = i.ts.SExt(tm, 64)
		} else {
			x = i.ts.ZExt(tm, 64)
		}
		switch wire {
		case "zigzag32", "zigzag64":
			// (x << 1) ^ (x >> 63)
			x = i.ts.BvBin(OBvXor, i.ts.BvBin(OBvShl, x, i.ts.BVConst(1, 64)), i.ts.BvBin(OBvAShr, x, i.ts.BVConst(63, 64)))
		}
		return 0, x
	}
	if bv, ok := v.(bool); ok {
		if bv {
			return 1, nil
		}
		return 0, nil
	}
	x := asInt64(v)
	switch wire {
	case "zigzag32", "zigzag64":
		return uint64(x<<1) ^ uint64(x>>63), nil
	}
	return uint64(x), nil
}

func (i *interpreter) pbFixed(v value, n int) []value {
	out := make([]value, n)
	if tm, ok := v.(*Term); ok {
		for k := 0; k < n; k++ {
			out[k] = i.norm(i.ts.Extract(tm, 8*k+7, 8*k), types.Typ[types.Uint8])
		}
		return out
	}
	var x uint64
	switch f := v.(type) {
	case float32, float64:
		unsupported("protobuf float field")
		_ = f
	default:
		x = uint64(asInt64(v))
	}
	for k := 0; k < n; k++ {
		out[k] = uint8(x >> uint(8*k))
	}
	return out
}

func wireType(w string) int {
	switch w {
	case "varint", "zigzag32", "zigzag64":
		return 0
	case "fixed64":
		return 1
	case "bytes":
		return 2
	case "fixed32":
		return 5
	}
	return -1
}

// pbEncodeStruct encodes the struct value st of type T.
func (i *interpreter) pbEncodeStruct(st structure, T types.Type) []value {
	sT, _ := T.Underlying().(*types.Struct)
	if sT == nil {
		unsupported("protobuf encode of non-struct %s", T)
	}
	var out []value
	for _, f := range i.pbFields(sT) {
		v := st[f.idx]
		if f.oneof {
			it := v.(iface)
			if it.t == nil {
				continue
			}
			// wrapper: pointer to a struct with exactly one tagged field
			wst, wT := pbStructOf(it.t)
			p := it.v.(*value)
			if p == nil || wst == nil {
				continue
			}
			inner := (*p).(structure)
			for _, wf := range i.pbFields(wst) {
				out = append(out, i.pbEncodeField(wf, inner[wf.idx], true)...)
			}
			_ = wT
			continue
		}
		out = append(out, i.pbEncodeField(f, v, false)...)
	}
	return out
}

func (i *interpreter) pbEncodeField(f pbField, v value, always bool) []value {
	var out []value
	if _, isMap := f.typ.Underlying().(*types.Map); isMap {
		m := v.(*smap)
		if m == nil || m.len() == 0 {
			return nil
		}
		unsupported("protobuf map field %s", f.name)
	}
	if f.rep {
		elems, _ := v.([]value)
		if len(elems) == 0 {
			return nil
		}
		et := f.typ.Underlying().(*types.Slice).Elem()
		if f.packed {
			var body []value
			for _, e := range elems {
				body = append(body, i.pbEncodeScalar(f.wire, e, et)...)
			}
			out = append(out, i.pbKey(f.num, 2)...)
			out = append(out, i.pbVarint(uint64(len(body)))...)
			return append(out, body...)
		}
		for _, e := range elems {
			out = append(out, i.pbEncodeSingle(f, e, et, true)...)
		}
		return out
	}
	return i.pbEncodeSingle(f, v, f.typ, always)
}

func (i *interpreter) pbEncodeScalar(wire string, v value, t types.Type) []value {
	switch wire {
	case "varint", "zigzag32", "zigzag64":
		c, s := i.pbScalar64(v, t, wire)
		if s != nil {
			return i.pbSymVarint(s)
		}
		return i.pbVarint(c)
	case "fixed32":
		return i.pbFixed(v, 4)
	case "fixed64":
		return i.pbFixed(v, 8)
	}
	unsupported("protobuf wire kind %s", wire)
	return nil
}

// pbEncodeSingle encodes one (non-repeated or element) value with its key.
func (i *interpreter) pbEncodeSingle(f pbField, v value, t types.Type, always bool) []value {
	var out []value
	switch f.wire {
	case "bytes":
		switch x := v.(type) {
		case string:
			if x == "" && !always {
				return nil
			}
			out = append(out, i.pbKey(f.num, 2)...)
			out = append(out, i.pbVarint(uint64(len(x)))...)
			return append(out, strVals(x)...)
		case symstr:
			out = append(out, i.pbKey(f.num, 2)...)
			out = append(out, i.pbVarint(uint64(len(x)))...)
			return append(out, []value(x)...)
		case []value:
			if len(x) == 0 && !always {
				return nil
			}
			out = append(out, i.pbKey(f.num, 2)...)
			out = append(out, i.pbVarint(uint64(len(x)))...)
			return append(out, x...)
		case *value: // nested message
			if x == nil {
				return nil
			}
			_, mt := pbStructOf(t)
			body := i.pbEncodeStruct((*x).(structure), mt)
			out = append(out, i.pbKey(f.num, 2)...)
			out = append(out, i.pbVarint(uint64(len(body)))...)
			return append(out, body...)
		}
		unsupported("protobuf bytes field %s of dynamic type %T", f.name, v)
	case "varint", "zigzag32", "zigzag64":
		c, s := i.pbScalar64(v, t, f.wire)
		if s != nil {
			out = append(out, i.pbKey(f.num, 0)...)
			return append(out, i.pbSymVarint(s)...)
		}
		if c == 0 && !always {
			return nil
		}
		out = append(out, i.pbKey(f.num, 0)...)
		return append(out, i.pbVarint(c)...)
	case "fixed32", "fixed64":
		n := 4
		wt := 5
		if f.wire == "fixed64" {
			n, wt = 8, 1
		}
		if _, sym := v.(*Term); !sym && !always {
			if isZeroNumber(v) {
				return nil
			}
		}
		out = append(out, i.pbKey(f.num, wt)...)
		return append(out, i.pbFixed(v, n)...)
	}
	unsupported("protobuf wire kind %s (field %s)", f.wire, f.name)
	return nil
}

func isZeroNumber(v value) bool {
	switch x := v.(type) {
	case float32:
		return x == 0
	case float64:
		return x == 0
	}
	return asInt64(v) == 0
}

// ---------------------------------------------------------------- decode

type pbReader struct {
	i   *interpreter
	b   []value
	pos int
}

var errPB = fmt.Errorf("proto: cannot parse invalid wire-format data")

// varint reads a varint; bytes may be symbolic (forks on continuation bits).
func (r *pbReader) varint() (conc uint64, sym *Term, err error) {
	i := r.i
	ts := i.ts
	var accC uint64
	var acc *Term
	for k := 0; k < 10; k++ {
		if r.pos >= len(r.b) {
			return 0, nil, errPB
		}
		bv := r.b[r.pos]
		r.pos++
		switch b := bv.(type) {
		case uint8:
			if acc != nil {
				acc = ts.BvBin(OBvOr, acc, ts.BVConst(uint64(b&0x7f)<<uint(7*k), 64))
			} else {
				accC |= uint64(b&0x7f) << uint(7*k)
			}
			if b < 0x80 {
				return accC, acc, nil
			}
		case *Term:
			if acc == nil {
				acc = ts.BVConst(accC, 64)
			}
			low := ts.ZExt(ts.BvBin(OBvAnd, b, ts.BVConst(0x7f, 8)), 64)
			acc = ts.BvBin(OBvOr, acc, ts.BvBin(OBvShl, low, ts.BVConst(uint64(7*k), 64)))
			cont := ts.Not(ts.Eq(ts.BvBin(OBvAnd, b, ts.BVConst(0x80, 8)), ts.BVConst(0, 8)))
			if !i.truth(i.normBool(cont)) {
				if acc.IsConst() {
					return acc.Val, nil, nil
				}
				return 0, acc, nil
			}
		}
	}
	return 0, nil, errPB
}

func (r *pbReader) concVarint() (uint64, error) {
	c, s, err := r.varint()
	if err != nil {
		return 0, err
	}
	if s != nil {
		v := r.i.concretizeRange(s, 0, 1<<40, "protobuf tag/length")
		return uint64(v), nil
	}
	return c, nil
}

func (r *pbReader) take(n uint64) ([]value, error) {
	if uint64(len(r.b)-r.pos) < n {
		return nil, errPB
	}
	out := r.b[r.pos : r.pos+int(n)]
	r.pos += int(n)
	return out, nil
}

// pbDecodeInto merges data into the struct st (type T).
func (i *interpreter) pbDecodeInto(data []value, st structure, T types.Type) error {
	sT := T.Underlying().(*types.Struct)
	fields := i.pbFields(sT)
	byNum := map[int]pbField{}
	for _, f := range fields {
		if f.oneof {
			// register the wrapper fields
			continue
		}
		byNum[f.num] = f
	}
	r := &pbReader{i: i, b: data}
	for r.pos < len(data) {
		key, err := r.concVarint()
		if err != nil {
			return err
		}
		num, wt := int(key>>3), int(key&7)
		if num == 0 {
			return errPB
		}
		f, known := byNum[num]
		if !known || (wireType(f.wire) != wt && !(f.packed && wt == 2)) {
			// unknown field (or oneof member): skip
			if err := r.skip(wt); err != nil {
				return err
			}
			if !known {
				if of, ok := i.pbOneofMember(sT, num); ok {
					_ = of
					unsupported("protobuf decode of oneof member %d from raw bytes", num)
				}
			}
			continue
		}
		if err := i.pbDecodeField(r, f, wt, st); err != nil {
			return err
		}
	}
	return nil
}

func (i *interpreter) pbOneofMember(sT *types.Struct, num int) (pbField, bool) {
	return pbField{}, false
}

func (r *pbReader) skip(wt int) error {
	switch wt {
	case 0:
		_, _, err := r.varint()
		return err
	case 1:
		_, err := r.take(8)
		return err
	case 2:
		n, err := r.concVarint()
		if err != nil {
			return err
		}
		_, err = r.take(n)
		return err
	case 5:
		_, err := r.take(4)
		return err
	}
	return errPB
}

func (i *interpreter) pbFromVarint(c uint64, s *Term, t types.Type, wire string) value {
	b := basicOf(t)
	if b == nil {
		unsupported("protobuf varint into %s", t)
	}
	if b.Kind() == types.Bool {
		if s != nil {
			return i.normBool(i.ts.Not(i.ts.Eq(s, i.ts.BVConst(0, 64))))
		}
		return c != 0
	}
	w, _, _ := intInfo(b.Kind())
	if s == nil {
		s = i.ts.BVConst(c, 64)
	}
	switch wire {
	case "zigzag32", "zigzag64":
		// (x >> 1) ^ -(x & 1)
		s = i.ts.BvBin(OBvXor, i.ts.BvBin(OBvLShr, s, i.ts.BVConst(1, 64)), i.ts.BvNeg(i.ts.BvBin(OBvAnd, s, i.ts.BVConst(1, 64))))
	}
	return i.norm(i.ts.Extract(s, w-1, 0), t)
}

func (i *interpreter) pbDecodeField(r *pbReader, f pbField, wt int, st structure) error {
	elemT := f.typ
	if f.rep {
		elemT = f.typ.Underlying().(*types.Slice).Elem()
	}
	if f.rep && f.packed && wt == 2 {
		n, err := r.concVarint()
		if err != nil {
			return err
		}
		body, err := r.take(n)
		if err != nil {
			return err
		}
		sub := &pbReader{i: i, b: body}
		cur, _ := st[f.idx].([]value)
		for sub.pos < len(body) {
			v, err := i.pbReadScalar(sub, f.wire, elemT)
			if err != nil {
				return err
			}
			cur = append(cur, v)
		}
		st[f.idx] = cur
		return nil
	}
	var v value
	switch f.wire {
	case "bytes":
		n, err := r.concVarint()
		if err != nil {
			return err
		}
		body, err := r.take(n)
		if err != nil {
			return err
		}
		switch et := elemT.Underlying().(type) {
		case *types.Basic: // string
			v = mkStr(body)
		case *types.Slice: // []byte
			cp := make([]value, len(body))
			copy(cp, body)
			v = cp
		case *types.Pointer: // message
			mst, mT := pbStructOf(et)
			var target structure
			if !f.rep {
				if p, ok := st[f.idx].(*value); ok && p != nil {
					target = (*p).(structure)
					if err := i.pbDecodeInto(body, target, mT); err != nil {
						return err
					}
					return nil
				}
			}
			cell := zero(mT)
			target = cell.(structure)
			_ = mst
			if err := i.pbDecodeInto(body, target, mT); err != nil {
				return err
			}
			v = &cell
		default:
			unsupported("protobuf bytes field of type %s", elemT)
		}
	default:
		var err error
		v, err = i.pbReadScalar(r, f.wire, elemT)
		if err != nil {
			return err
		}
	}
	if f.rep {
		cur, _ := st[f.idx].([]value)
		st[f.idx] = append(cur, v)
	} else {
		st[f.idx] = v
	}
	return nil
}

func (i *interpreter) pbReadScalar(r *pbReader, wire string, t types.Type) (value, error) {
	switch wire {
	case "varint", "zigzag32", "zigzag64":
		c, s, err := r.varint()
		if err != nil {
			return nil, err
		}
		return i.pbFromVarint(c, s, t, wire), nil
	case "fixed32", "fixed64":
		n := 4
		if wire == "fixed64" {
			n = 8
		}
		bs, err := r.take(uint64(n))
		if err != nil {
			return nil, err
		}
		// little-endian
		rev := make([]value, n)
		for k := range bs {
			rev[n-1-k] = bs[k]
		}
		return i.norm(i.bytesTerm(rev), t), nil
	}
	unsupported("protobuf wire kind %s", wire)
	return nil, nil
}

// ---------------------------------------------------------------- entry points

func (i *interpreter) pbBlobs() map[*value]*pbBlob {
	m, _ := i.extra["pbblobs"].(map[*value]*pbBlob)
	if m == nil {
		m = map[*value]*pbBlob{}
		i.extra["pbblobs"] = m
	}
	return m
}

// pbMessage extracts (struct, type) from a proto.Message interface value.
func (i *interpreter) pbMessage(m value) (structure, types.Type, bool) {
	it, ok := m.(iface)
	if !ok || it.t == nil {
		return nil, nil, false
	}
	p, ok := it.v.(*value)
	if !ok {
		unsupported("proto.Message of dynamic type %s", it.t)
	}
	if p == nil {
		return nil, nil, false
	}
	_, T := pbStructOf(it.t)
	st, ok := (*p).(structure)
	if !ok {
		unsupported("proto.Message of dynamic type %s", it.t)
	}
	return st, T, true
}

func deepCopyPB(v value) value {
	switch x := v.(type) {
	case structure:
		out := make(structure, len(x))
		for k := range x {
			out[k] = deepCopyPB(x[k])
		}
		return out
	case []value:
		if x == nil {
			return x
		}
		out := make([]value, len(x))
		for k := range x {
			out[k] = deepCopyPB(x[k])
		}
		return out
	case *value:
		if x == nil {
			return x
		}
		c := deepCopyPB(*x)
		return &c
	case iface:
		return iface{t: x.t, v: deepCopyPB(x.v)}
	}
	return v
}

func (i *interpreter) pbEncodeMsg(m value) []value {
	st, T, ok := i.pbMessage(m)
	if !ok {
		return []value{}
	}
	out := i.pbEncodeStruct(st, T)
	if out == nil {
		out = []value{}
	}
	if len(out) > 0 {
		i.pbBlobs()[&out[0]] = &pbBlob{typ: T, snap: deepCopyPB(st).(structure), bytes: append([]value(nil), out...)}
	}
	return out
}

func (i *interpreter) pbResetStruct(st structure, T types.Type) {
	z := zero(T).(structure)
	copy(st, z)
}

// pbDecodeMsg implements proto.Unmarshal: reset, then merge. Returns an error value (iface).
func (i *interpreter) pbDecodeMsg(data value, m value) value {
	st, T, ok := i.pbMessage(m)
	if !ok {
		return i.mkError("proto: Unmarshal called with nil message")
	}
	bs, _ := data.([]value)
	i.pbResetStruct(st, T)
	if len(bs) == 0 {
		return iface{}
	}
	if blob, ok := i.pbBlobs()[&bs[0]]; ok && len(blob.bytes) == len(bs) && types.Identical(blob.typ, T) {
		same := true
		for k := range bs {
			if bs[k] != blob.bytes[k] {
				same = false
				break
			}
		}
		if same {
			copy(st, deepCopyPB(blob.snap).(structure))
			// nil vs empty: proto3 decoding leaves absent bytes/strings/messages nil
			i.pbNormalizeDecoded(st, T)
			return iface{}
		}
	}
	// random-oracle idealisation: the output of a collision-free hash model never parses as
	// a protobuf message (chain33 probes 32-byte group headers with Decode)
	if t, ok := bs[0].(*Term); ok && t.Op == OExtract && t.Args[0].Op == OApp && i.ts.Injective[t.Args[0].Name] {
		return i.mkError("proto: cannot parse invalid wire-format data")
	}
	if err := i.pbDecodeInto(bs, st, T); err != nil {
		return i.mkError(err.Error())
	}
	return iface{}
}

// pbNormalizeDecoded makes a restored snapshot look like a decoded message: empty byte
// slices become nil (absent on the wire).
func (i *interpreter) pbNormalizeDecoded(st structure, T types.Type) {
	sT := T.Underlying().(*types.Struct)
	for _, f := range i.pbFields(sT) {
		if f.oneof {
			continue
		}
		switch x := st[f.idx].(type) {
		case []value:
			if len(x) == 0 {
				st[f.idx] = []value(nil)
			} else if f.rep {
				if pt, ok := f.typ.Underlying().(*types.Slice).Elem().Underlying().(*types.Pointer); ok {
					_, mT := pbStructOf(pt)
					for _, e := range x {
						if p, ok := e.(*value); ok && p != nil {
							i.pbNormalizeDecoded((*p).(structure), mT)
						}
					}
				}
			}
		case *value:
			if x != nil {
				if pt, ok := f.typ.Underlying().(*types.Pointer); ok {
					_, mT := pbStructOf(pt)
					if inner, ok := (*x).(structure); ok {
						i.pbNormalizeDecoded(inner, mT)
					}
				}
			}
		}
	}
}

func (i *interpreter) pbSize(m value) int {
	st, T, ok := i.pbMessage(m)
	if !ok {
		return 0
	}
	return len(i.pbEncodeStruct(st, T))
}

func init() {
	enc := func(fr *frame, a []value) value { return fr.i.pbEncodeMsg(a[0]) }
	externals["github.com/33cn/chain33/types.Encode"] = enc
	externals["github.com/33cn/chain33/types.EncodeWithBuffer"] = enc
	externals["github.com/33cn/chain33/types.Decode"] = func(fr *frame, a []value) value { return fr.i.pbDecodeMsg(a[0], a[1]) }
	externals["github.com/33cn/chain33/types.Size"] = func(fr *frame, a []value) value { return fr.i.pbSize(a[0]) }
	externals["github.com/golang/protobuf/proto.Marshal"] = func(fr *frame, a []value) value {
		return tuple{fr.i.pbEncodeMsg(a[0]), iface{}}
	}
	externals["github.com/golang/protobuf/proto.Unmarshal"] = func(fr *frame, a []value) value { return fr.i.pbDecodeMsg(a[0], a[1]) }
	externals["github.com/golang/protobuf/proto.Size"] = func(fr *frame, a []value) value { return fr.i.pbSize(a[0]) }
	externals["github.com/golang/protobuf/proto.Clone"] = func(fr *frame, a []value) value {
		it, ok := a[0].(iface)
		if !ok || it.t == nil {
			return a[0]
		}
		return iface{t: it.t, v: deepCopyPB(it.v)}
	}
	externals["github.com/33cn/chain33/types.Clone"] = externals["github.com/golang/protobuf/proto.Clone"]
	externals["github.com/golang/protobuf/proto.Equal"] = func(fr *frame, a []value) value {
		i := fr.i
		x, tx, okx := i.pbMessage(a[0])
		y, ty, oky := i.pbMessage(a[1])
		if !okx || !oky {
			return okx == oky
		}
		if !types.Identical(tx, ty) {
			return false
		}
		ex, ey := i.pbEncodeStruct(x, tx), i.pbEncodeStruct(y, ty)
		return i.strEq(mkStr(ex), mkStr(ey))
	}
}

// pbMethodExternal provides the generated methods of message types when package bodies
// are unavailable or rely on protoimpl (Reset, GetX, ProtoMessage, String).
func pbMethodExternal(i *interpreter, fn *SSAFunction) externalFn {
	recv := fn.Signature.Recv()
	if recv == nil {
		return nil
	}
	st, T := pbStructOf(recv.Type())
	if st == nil || !isPBStruct(st) {
		return nil
	}
	name := fn.Name()
	switch {
	case name == "Reset":
		return func(fr *frame, a []value) value {
			if p, ok := a[0].(*value); ok && p != nil {
				fr.i.pbResetStruct((*p).(structure), T)
			}
			return nil
		}
	case name == "ProtoMessage":
		return func(fr *frame, a []value) value { return nil }
	case name == "String":
		return func(fr *frame, a []value) value { return "<" + T.String() + ">" }
	case strings.HasPrefix(name, "Get") && fn.Blocks == nil:
		fname := name[3:]
		for k := 0; k < st.NumFields(); k++ {
			if st.Field(k).Name() == fname {
				k := k
				ft := st.Field(k).Type()
				return func(fr *frame, a []value) value {
					p, ok := a[0].(*value)
					if !ok || p == nil {
						return zero(ft)
					}
					return (*p).(structure)[k]
				}
			}
		}
	}
	return nil
}
