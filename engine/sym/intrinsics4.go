package sym

func init() {
	verifIntrinsics["verifClockSettle"] = func(fr *frame, args []value) value { return nil }
}
