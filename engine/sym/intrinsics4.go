package sym

func init() {
	verifIntrinsics["verifClockSettle"] = func(fr *frame, args []value) value { return nil }
}

func init() {
	// verifInternalBytes(name, n) []byte: n arbitrary bytes that exist only under the engine
	// (called from stubs of environment functions that natively run for real, e.g. a model
	// of io.ReadFull(rand.Reader)); they are not part of the native replay vector.
	verifIntrinsics["verifInternalBytes"] = func(fr *frame, args []value) value {
		n := int(asInt64(args[1]))
		out := make([]value, n)
		for k := range out {
			out[k] = fr.i.freshX(argString(args[0]), BV(8), typUint8, true)
		}
		return out
	}
}
