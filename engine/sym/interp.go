// Copyright 2013 The Go Authors. All rights reserved.
// Use of this source code is governed by a BSD-style
// license that can be found in the LICENSE file (LICENSE.x-tools).
//
// Package sym is a symbolic executor for go/ssa. It started as a copy of
// golang.org/x/tools/go/ssa/interp (v0.29.0) and was changed to:
//   - carry SMT terms (*Term) as scalar values next to native Go values,
//   - fork at symbolic branches by re-execution along a decision prefix,
//   - raise Go run-time errors of the *target* explicitly (so that a crash of the
//     engine itself is never mistaken for a target panic),
//   - call models/intrinsics for body-less functions.
package sym

import (
	"fmt"
	"go/token"
	"go/types"
	"os"
	"runtime"
	"runtime/debug"
	"slices"
	"strings"

	"golang.org/x/tools/go/ssa"
)

type continuation int

const (
	kNext continuation = iota
	kReturn
	kJump
)

type deferred struct {
	fn    value
	args  []value
	instr *ssa.Defer
	tail  *deferred
}

type frame struct {
	i                *interpreter
	caller           *frame
	fn               *ssa.Function
	block, prevBlock *ssa.BasicBlock
	env              envT                // dynamic values of SSA variables
	locals           []value
	defers           *deferred
	result           value
	panicking        bool
	panic            interface{}
	phitemps         []value // temporaries for parallel phi assignment
	depth            int
	lit              *litInfo // folded constant literals of fn (nil: none)
}

// ---- engine control flow (never visible to the target's recover) ----

type abortKind int

const (
	abAssume      abortKind = iota // assumption failed / infeasible path: silently dropped
	abViolation                    // assertion violated (recorded); path ends
	abUnsupported                  // construct outside the engine: path is inconclusive
	abBudget                       // step / depth budget exceeded: unwinding failure
	abEngine                       // internal error of the engine
	abDone                         // harness asked to stop the path (verifStop)
)

type abortPath struct {
	kind abortKind
	msg  string
}

func (a abortPath) String() string { return fmt.Sprintf("abort(%d): %s", a.kind, a.msg) }

func unsupported(format string, args ...interface{}) {
	panic(abortPath{abUnsupported, fmt.Sprintf(format, args...)})
}

// If the target program panics, the interpreter panics with this type.
type targetPanic struct {
	v value
}

func (p targetPanic) String() string { return toString(p.v) }

// runtimePanic raises a target-level run-time error (index out of range, nil deref, ...).
func (i *interpreter) runtimePanic(msg string) {
	panic(targetPanic{iface{t: i.runtimeErrorString, v: "runtime error: " + msg}})
}

func (fr *frame) get(key ssa.Value) value {
	switch key := key.(type) {
	case nil:
		return nil
	case *ssa.Function, *ssa.Builtin:
		return key
	case *ssa.Const:
		return constValue(key)
	case *ssa.Global:
		return fr.i.global(key)
	}
	if r, ok := fr.env.get(key); ok {
		return r
	}
	panic(fmt.Sprintf("get: no value for %T: %v", key, key.Name()))
}

// global returns the address of a package-level variable, allocating it lazily.
func (i *interpreter) global(g *ssa.Global) *value {
	if r, ok := i.globals[g]; ok {
		return r
	}
	cell := zero(mustDeref(g.Type()))
	r := &cell
	i.globals[g] = r
	// Variables of body-less packages never get initialised by an interpreted init:
	// give error-typed and pointer-typed ones an opaque non-nil identity.
	if g.Pkg != nil && !i.hasBodies(g.Pkg) {
		i.opaqueGlobal(g, r)
	}
	return r
}

func (i *interpreter) hasBodies(p *ssa.Package) bool {
	if b, ok := i.pkgBodies[p]; ok {
		return b
	}
	b := false
	if f := p.Func("init"); f != nil && len(f.Blocks) > 0 {
		b = true
	}
	i.pkgBodies[p] = b
	return b
}

func (i *interpreter) opaqueGlobal(g *ssa.Global, cell *value) {
	t := mustDeref(g.Type())
	if types.Identical(t, i.errorType) {
		*cell = i.mkError(g.Pkg.Pkg.Path() + "." + g.Name())
		return
	}
	if h, ok := opaqueGlobals[g.Pkg.Pkg.Path()+"."+g.Name()]; ok {
		h(i, t, cell)
	}
}

// mkError builds a value of dynamic type *errors.errorString.
func (i *interpreter) mkError(msg string) value {
	if i.errorStringPtr == nil {
		unsupported("errors package not loaded from source (needed for error values)")
	}
	var s value = structure{msg}
	return iface{t: i.errorStringPtr, v: &s}
}

// runDefer runs a deferred call d.
// It always returns normally, but may set or clear fr.panic.
func (fr *frame) runDefer(d *deferred) {
	var ok bool
	defer func() {
		if !ok {
			r := recover()
			if isEngineAbort(r) {
				panic(r)
			}
			// Deferred call created a new state of panic.
			fr.panicking = true
			fr.panic = r
		}
	}()
	call(fr.i, fr, d.instr.Pos(), d.fn, d.args)
	ok = true
}

func isEngineAbort(r interface{}) bool {
	switch r.(type) {
	case abortPath:
		return true
	case targetPanic:
		return false
	case nil:
		return false
	}
	return true // Go run-time error inside the engine, or an engine panic(string)
}

// runDefers executes fr's deferred function calls in LIFO order.
func (fr *frame) runDefers() {
	for d := fr.defers; d != nil; d = d.tail {
		fr.runDefer(d)
	}
	fr.defers = nil
	if fr.panicking {
		panic(fr.panic) // new panic, or still panicking
	}
}

func lookupMethod(i *interpreter, typ types.Type, meth *types.Func) *ssa.Function {
	return i.prog.LookupMethod(typ, meth.Pkg(), meth.Name())
}

// visitInstr interprets a single ssa.Instruction within the activation
// record frame.  It returns a continuation value indicating where to
// read the next instruction from.
func visitInstr(fr *frame, instr ssa.Instruction) continuation {
	i := fr.i
	if fr.lit != nil && fr.lit.skip[instr] {
		return kNext
	}
	i.steps++
	if i.steps > i.cfg.MaxSteps {
		panic(abortPath{abBudget, fmt.Sprintf("step budget %d exceeded in %s", i.cfg.MaxSteps, fr.fn)})
	}
	switch instr := instr.(type) {
	case *ssa.DebugRef:
		// no-op

	case *ssa.UnOp:
		fr.env.set(instr, i.unop(instr, fr.get(instr.X)))

	case *ssa.BinOp:
		fr.env.set(instr, i.binop(instr.Op, instr.X.Type(), instr.Y.Type(), fr.get(instr.X), fr.get(instr.Y)))

	case *ssa.Call:
		fn, args := prepareCall(fr, &instr.Call)
		fr.env.set(instr, call(fr.i, fr, instr.Pos(), fn, args))

	case *ssa.ChangeInterface:
		fr.env.set(instr, fr.get(instr.X))

	case *ssa.ChangeType:
		fr.env.set(instr, fr.get(instr.X)) // (cannot fail)

	case *ssa.Convert:
		fr.env.set(instr, i.conv(instr.Type(), instr.X.Type(), fr.get(instr.X)))

	case *ssa.SliceToArrayPointer:
		fr.env.set(instr, i.sliceToArrayPointer(instr.Type(), instr.X.Type(), fr.get(instr.X)))

	case *ssa.MakeInterface:
		fr.env.set(instr, iface{t: instr.X.Type(), v: fr.get(instr.X)})

	case *ssa.Extract:
		fr.env.set(instr, fr.get(instr.Tuple).(tuple)[instr.Index])

	case *ssa.Slice:
		fr.env.set(instr, i.slice(instr, fr.get(instr.X), fr.get(instr.Low), fr.get(instr.High), fr.get(instr.Max)))

	case *ssa.Return:
		switch len(instr.Results) {
		case 0:
		case 1:
			fr.result = fr.get(instr.Results[0])
		default:
			var res []value
			for _, r := range instr.Results {
				res = append(res, fr.get(r))
			}
			fr.result = tuple(res)
		}
		fr.block = nil
		return kReturn

	case *ssa.RunDefers:
		fr.runDefers()

	case *ssa.Panic:
		panic(targetPanic{fr.get(instr.X)})

	case *ssa.Send:
		ch := fr.get(instr.Chan).(*channel)
		i.chanSend(ch, fr.get(instr.X))

	case *ssa.Store:
		addr := fr.get(instr.Addr).(*value)
		if addr == nil {
			i.runtimePanic("invalid memory address or nil pointer dereference")
		}
		store(mustDeref(instr.Addr.Type()), addr, fr.get(instr.Val))

	case *ssa.If:
		succ := 1
		if i.truth(fr.get(instr.Cond)) {
			succ = 0
		}
		fr.prevBlock, fr.block = fr.block, fr.block.Succs[succ]
		return kJump

	case *ssa.Jump:
		fr.prevBlock, fr.block = fr.block, fr.block.Succs[0]
		return kJump

	case *ssa.Defer:
		fn, args := prepareCall(fr, &instr.Call)
		defers := &fr.defers
		if into := fr.get(instr.DeferStack); into != nil {
			defers = into.(**deferred)
		}
		*defers = &deferred{
			fn:    fn,
			args:  args,
			instr: instr,
			tail:  *defers,
		}

	case *ssa.Go:
		fn, args := prepareCall(fr, &instr.Call)
		i.spawn(fr, instr, fn, args)

	case *ssa.MakeChan:
		fr.env.set(instr, &channel{cap: int(i.concreteInt(fr.get(instr.Size), "chan size"))})

	case *ssa.Alloc:
		var addr *value
		if instr.Heap {
			// new
			addr = new(value)
			fr.env.set(instr, addr)
		} else {
			// local
			addr = fr.envPtr(instr)
		}
		if fr.lit != nil {
			if t, ok := fr.lit.tmpl[instr]; ok {
				a := make(array, len(t))
				copy(a, t)
				*addr = a
				break
			}
		}
		*addr = zero(mustDeref(instr.Type()))

	case *ssa.MakeSlice:
		c := i.concretizeRange(fr.get(instr.Cap), 0, int64(i.cfg.MaxAlloc), "make cap")
		l := i.concretizeRange(fr.get(instr.Len), 0, c, "make len")
		slice := make([]value, c)
		tElt := instr.Type().Underlying().(*types.Slice).Elem()
		for i := range slice {
			slice[i] = zero(tElt)
		}
		fr.env.set(instr, slice[:l])

	case *ssa.MakeMap:
		fr.env.set(instr, makeMap(instr.Type().Underlying().(*types.Map).Key()))

	case *ssa.Range:
		fr.env.set(instr, i.rangeIter(fr.get(instr.X), instr.X.Type()))

	case *ssa.Next:
		fr.env.set(instr, fr.get(instr.Iter).(iter).next())

	case *ssa.FieldAddr:
		p := fr.get(instr.X).(*value)
		if p == nil {
			i.runtimePanic("invalid memory address or nil pointer dereference")
		}
		fr.env.set(instr, &(*p).(structure)[instr.Field])

	case *ssa.Field:
		fr.env.set(instr, fr.get(instr.X).(structure)[instr.Field])

	case *ssa.IndexAddr:
		x := fr.get(instr.X)
		idx := fr.get(instr.Index)
		switch x := x.(type) {
		case []value:
			fr.env.set(instr, &x[i.index(idx, len(x))])
		case *value: // *array
			if x == nil {
				i.runtimePanic("invalid memory address or nil pointer dereference")
			}
			a := (*x).(array)
			fr.env.set(instr, &a[i.index(idx, len(a))])
		default:
			panic(fmt.Sprintf("unexpected x type in IndexAddr: %T", x))
		}

	case *ssa.Index:
		x := fr.get(instr.X)
		idx := fr.get(instr.Index)

		switch x := x.(type) {
		case array:
			fr.env.set(instr, i.indexRead([]value(x), idx))
		case string:
			if t, ok := idx.(*Term); ok {
				fr.env.set(instr, i.indexRead(strVals(x), t))
			} else {
				fr.env.set(instr, x[i.index(idx, len(x))])
			}
		case symstr:
			fr.env.set(instr, i.indexRead([]value(x), idx))
		default:
			panic(fmt.Sprintf("unexpected x type in Index: %T", x))
		}

	case *ssa.Lookup:
		fr.env.set(instr, i.lookup(instr, fr.get(instr.X), fr.get(instr.Index)))

	case *ssa.MapUpdate:
		m := fr.get(instr.Map).(*smap)
		if m == nil {
			panic(targetPanic{iface{t: i.runtimeErrorString, v: "assignment to entry in nil map"}})
		}
		m.insert(i, fr.get(instr.Key), fr.get(instr.Value))

	case *ssa.TypeAssert:
		fr.env.set(instr, typeAssert(fr.i, instr, fr.get(instr.X).(iface)))

	case *ssa.MakeClosure:
		var bindings []value
		for _, binding := range instr.Bindings {
			bindings = append(bindings, fr.get(binding))
		}
		fr.env.set(instr, &closure{instr.Fn.(*ssa.Function), bindings})

	case *ssa.Phi:
		panic("unreachable: phis are processed at block entry")

	case *ssa.Select:
		fr.env.set(instr, i.selectInstr(fr, instr))

	default:
		panic(fmt.Sprintf("unexpected instruction: %T", instr))
	}

	return kNext
}

// prepareCall determines the function value and argument values for a
// function call in a Call, Go or Defer instruction, performing
// interface method lookup if needed.
func prepareCall(fr *frame, call *ssa.CallCommon) (fn value, args []value) {
	v := fr.get(call.Value)
	if call.Method == nil {
		// Function call.
		fn = v
	} else {
		// Interface method invocation.
		recv := v.(iface)
		if recv.t == nil {
			fr.i.runtimePanic("invalid memory address or nil pointer dereference (method " + call.Method.Name() + " invoked on nil interface)")
		}
		if f := lookupMethod(fr.i, recv.t, call.Method); f == nil {
			// Unreachable in well-typed programs.
			panic(fmt.Sprintf("method set for dynamic type %v does not contain %s", recv.t, call.Method))
		} else {
			fn = f
		}
		args = append(args, recv.v)
	}
	for _, arg := range call.Args {
		args = append(args, fr.get(arg))
	}
	return
}

// call interprets a call to a function (function, builtin or closure)
// fn with arguments args, returning its result.
// callpos is the position of the callsite.
func call(i *interpreter, caller *frame, callpos token.Pos, fn value, args []value) value {
	switch fn := fn.(type) {
	case *ssa.Function:
		if fn == nil {
			i.runtimePanic("invalid memory address or nil pointer dereference (call of nil func)")
		}
		return callSSA(i, caller, callpos, fn, args, nil)
	case *closure:
		return callSSA(i, caller, callpos, fn.Fn, args, fn.Env)
	case *ssa.Builtin:
		return callBuiltin(caller, callpos, fn, args)
	}
	panic(fmt.Sprintf("cannot call %T", fn))
}

func loc(fset *token.FileSet, pos token.Pos) string {
	if pos == token.NoPos {
		return ""
	}
	return " at " + fset.Position(pos).String()
}

// callSSA interprets a call to function fn with arguments args,
// and lexical environment env, returning its result.
// callpos is the position of the callsite.
func callSSA(i *interpreter, caller *frame, callpos token.Pos, fn *ssa.Function, args []value, env []value) value {
	fr := &frame{
		i:      i,
		caller: caller, // for panic/recover
		fn:     fn,
	}
	if caller != nil {
		fr.depth = caller.depth + 1
		if fr.depth > i.cfg.MaxDepth {
			panic(abortPath{abBudget, fmt.Sprintf("call depth %d exceeded in %s", i.cfg.MaxDepth, fn)})
		}
	}
	if i.cfg.Trace {
		fmt.Fprintf(os.Stderr, "%s-> %s\n", strings.Repeat(" ", fr.depth), fn)
	}
	if fn.Parent() == nil {
		name := fn.Name()
		if strings.HasPrefix(name, "verif") {
			if ext := verifIntrinsics[name]; ext != nil {
				return ext(fr, args)
			}
		}
		full := i.fnName(fn)
		if ov := i.overrides[full]; ov != nil {
			return callSSA(i, caller, callpos, ov, args, nil)
		}
		if ext := externals[full]; ext != nil {
			return ext(fr, args)
		}
		if skipInits[full] {
			return nil
		}
		if strings.HasPrefix(name, "file_") && strings.HasSuffix(name, "_proto_init") {
			return nil // protobuf descriptor registration (reflection only)
		}
		if fn.Signature.Recv() != nil {
			if ext := i.pbMethod(fn); ext != nil {
				return ext(fr, args)
			}
		}
		if fn.Blocks == nil {
			if fn.Name() == "init" || strings.HasPrefix(fn.Name(), "init#") {
				return nil // package initialiser of a body-less package
			}
			if ext := patternExternal(i, fn, full); ext != nil {
				return ext(fr, args)
			}
			unsupported("no code and no model for function %s (called from %s%s)", full, callerName(caller), loc(i.prog.Fset, callpos))
		}
	} else if fn.Blocks == nil {
		unsupported("no code for nested function %s", fn)
	}
	i.noteFunc(fn)

	// generic function body?
	if fn.TypeParams().Len() > 0 && len(fn.TypeArgs()) == 0 {
		panic("interp requires ssa.BuilderMode to include InstantiateGenerics to execute generics")
	}

	fr.env = newEnv(fn)
	fr.lit = litFold(fn)
	fr.block = fn.Blocks[0]
	fr.locals = make([]value, len(fn.Locals))
	for i, l := range fn.Locals {
		fr.locals[i] = zero(mustDeref(l.Type()))
		fr.env.set(l, &fr.locals[i])
	}
	for i, p := range fn.Params {
		fr.env.set(p, args[i])
	}
	for i, fv := range fn.FreeVars {
		fr.env.set(fv, env[i])
	}
	for fr.block != nil {
		runFrame(fr)
	}
	return fr.result
}

// pbMethod returns the model of a generated protobuf method (cached per function).
func (i *interpreter) pbMethod(fn *ssa.Function) externalFn {
	switch n := fn.Name(); {
	case n == "Reset", n == "String", n == "ProtoMessage":
	case fn.Blocks == nil && strings.HasPrefix(n, "Get"):
	default:
		return nil
	}
	if c, ok := i.sh.pbMethods.Load(fn); ok {
		e, _ := c.(externalFn)
		return e
	}
	e := pbMethodExternal(i, fn)
	i.sh.pbMethods.Store(fn, e)
	return e
}

func callerName(fr *frame) string {
	if fr == nil || fr.fn == nil {
		return "?"
	}
	return fr.fn.String()
}

// fnName is fn.String() with generic instantiation suffix removed for the origin lookup.
func (i *interpreter) fnName(fn *ssa.Function) string {
	if n, ok := i.sh.fnNames.Load(fn); ok {
		return n.(string)
	}
	n := fn.String()
	if o := fn.Origin(); o != nil {
		n = o.String()
	}
	i.sh.fnNames.Store(fn, n)
	return n
}

// runFrame executes SSA instructions starting at fr.block and
// continuing until a return, a panic, or a recovered panic.
func runFrame(fr *frame) {
	defer func() {
		if fr.block == nil {
			return // normal return
		}
		r := recover()
		if isEngineAbort(r) {
			if _, ok := r.(abortPath); !ok {
				// Go run-time error or panic(string) raised by the engine's own code
				r = abortPath{abEngine, fmt.Sprintf("%v in %s\n%s", r, fr.fn, trimStack(debug.Stack()))}
			}
			panic(r)
		}
		fr.panicking = true
		fr.panic = r
		fr.runDefers()
		fr.block = fr.fn.Recover
	}()

	for {
		nonPhis := executePhis(fr)
		for _, instr := range nonPhis {
			if fr.i.cfg.TraceInstr {
				if v, ok := instr.(ssa.Value); ok {
					fmt.Fprintln(os.Stderr, "\t", v.Name(), "=", instr)
				} else {
					fmt.Fprintln(os.Stderr, "\t", instr)
				}
			}
			if visitInstr(fr, instr) == kReturn {
				return
			}
			// Inv: kNext (continue) or kJump (last instr)
		}
	}
}

func trimStack(b []byte) string {
	lines := strings.Split(string(b), "\n")
	var out []string
	for _, l := range lines {
		if strings.Contains(l, "sym.") || strings.Contains(l, "/sym/") {
			out = append(out, l)
		}
		if len(out) > 24 {
			break
		}
	}
	return strings.Join(out, "\n")
}

// executePhis executes the phi-nodes at the start of the current
// block and returns the non-phi instructions.
func executePhis(fr *frame) []ssa.Instruction {
	firstNonPhi := -1
	for i, instr := range fr.block.Instrs {
		if _, ok := instr.(*ssa.Phi); !ok {
			firstNonPhi = i
			break
		}
	}
	// Inv: 0 <= firstNonPhi; every block contains a non-phi.

	nonPhis := fr.block.Instrs[firstNonPhi:]
	if firstNonPhi > 0 {
		phis := fr.block.Instrs[:firstNonPhi]
		predIndex := slices.Index(fr.block.Preds, fr.prevBlock)
		fr.phitemps = fr.phitemps[:0]
		for _, phi := range phis {
			phi := phi.(*ssa.Phi)
			fr.phitemps = append(fr.phitemps, fr.get(phi.Edges[predIndex]))
		}
		for i, phi := range phis {
			fr.env.set(phi.(*ssa.Phi), fr.phitemps[i])
		}
	}
	return nonPhis
}

// doRecover implements the recover() built-in.
func doRecover(caller *frame) value {
	// recover() must be exactly one level beneath the deferred
	// function (two levels beneath the panicking function) to
	// have any effect.  Thus we ignore both "defer recover()" and
	// "defer f() -> g() -> recover()".
	if caller != nil && !caller.panicking &&
		caller.caller != nil && caller.caller.panicking {
		caller.caller.panicking = false
		p := caller.caller.panic
		caller.caller.panic = nil

		switch p := p.(type) {
		case targetPanic:
			// The target program explicitly called panic().
			return p.v
		case runtime.Error:
			return iface{caller.i.runtimeErrorString, p.Error()}
		case string:
			return iface{caller.i.runtimeErrorString, p}
		default:
			panic(fmt.Sprintf("unexpected panic type %T in target call to recover()", p))
		}
	}
	return iface{}
}

func mustDeref(t types.Type) types.Type {
	if p, ok := t.Underlying().(*types.Pointer); ok {
		return p.Elem()
	}
	panic(fmt.Sprintf("mustDeref: not a pointer type: %v", t))
}
