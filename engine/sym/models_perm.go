package sym

// Block-cipher and PRF idealisations for harness-level models of AES modes:
//   verifPermute(key, in []byte, inverse bool) []byte
//       a keyed permutation of len(in)-byte blocks: concrete arguments run real AES
//       (16-byte blocks, 16/24/32-byte keys); symbolic ones are uninterpreted functions
//       permE/permD with D(k, E(k, x)) = x and E(k, D(k, x)) = x applied by rewriting.
//   verifPRF(tag string, in []byte, outLen int) []byte
//       an uninterpreted (collision-free under hash_injective) function of the input.

import (
	"crypto/aes"
	"crypto/sha256"
	"fmt"
)

func realPRF(tag string, outLen int) func([]byte) []byte {
	return func(in []byte) []byte {
		var out []byte
		ctr := byte(0)
		for len(out) < outLen {
			h := sha256.New()
			h.Write([]byte(tag))
			h.Write([]byte{ctr})
			h.Write(in)
			out = h.Sum(out)
			ctr++
		}
		return out[:outLen]
	}
}

func init() {
	verifIntrinsics["verifPermute"] = func(fr *frame, a []value) value {
		i := fr.i
		key, in := a[0].([]value), a[1].([]value)
		inv, ok := a[2].(bool)
		if !ok {
			unsupported("verifPermute: symbolic direction")
		}
		kc, kok := concreteBytes(key)
		ic, iok := concreteBytes(in)
		if kok && iok && len(ic) == 16 {
			blk, err := aes.NewCipher(kc)
			if err != nil {
				unsupported("verifPermute: %v", err)
			}
			out := make([]byte, 16)
			if inv {
				blk.Decrypt(out, ic)
			} else {
				blk.Encrypt(out, ic)
			}
			return bytesToVals(out)
		}
		ts := i.ts
		kt, it := i.bytesTerm(key), i.bytesTerm(in)
		name, other := fmt.Sprintf("permE_%d_%d", len(key), len(in)), fmt.Sprintf("permD_%d_%d", len(key), len(in))
		if inv {
			name, other = other, name
		}
		if it.Op == OApp && it.Name == other && it.Args[0] == kt {
			return i.termBytes(it.Args[1])
		}
		return i.termBytes(ts.App(name, BV(8*len(in)), kt, it))
	}
	verifIntrinsics["verifPRF"] = func(fr *frame, a []value) value {
		tag := argString(a[0])
		n := int(asInt64(a[2]))
		return fr.i.hashModel("prf_"+sanitize(tag), a[1].([]value), n, realPRF(tag, n))
	}
}
