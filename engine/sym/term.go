package sym

// SMT term DAG with hash-consing and light simplification.
// One TermStore per worker (not safe for concurrent use).

import (
	"fmt"
	"math/big"
	"math/bits"
	"strconv"
	"strings"
)

type SortKind uint8

const (
	KBool SortKind = iota
	KBV
	KInt
)

type Sort struct {
	K SortKind
	W int
}

var BoolSort = Sort{K: KBool}
var IntSort = Sort{K: KInt}

func BV(w int) Sort { return Sort{K: KBV, W: w} }

func (s Sort) SMT() string {
	switch s.K {
	case KBool:
		return "Bool"
	case KInt:
		return "Int"
	}
	return "(_ BitVec " + strconv.Itoa(s.W) + ")"
}

type Op uint8

const (
	OConst Op = iota
	OVar
	OApp // uninterpreted function application
	ONot
	OAnd
	OOr
	OIte
	OEq
	// bit-vector
	OBvAdd
	OBvSub
	OBvMul
	OBvUDiv
	OBvSDiv
	OBvURem
	OBvSRem
	OBvAnd
	OBvOr
	OBvXor
	OBvShl
	OBvLShr
	OBvAShr
	OBvNeg
	OBvNot
	OBvULT
	OBvULE
	OBvSLT
	OBvSLE
	OExtract
	OZExt
	OSExt
	OConcat
	// integers
	OIAdd
	OISub
	OIMul
	OIDiv
	OIMod
	OINeg
	OIAbs
	OILT
	OILE
	OInt2BV
	OBV2Int
)

var opName = map[Op]string{
	ONot: "not", OAnd: "and", OOr: "or", OIte: "ite", OEq: "=",
	OBvAdd: "bvadd", OBvSub: "bvsub", OBvMul: "bvmul", OBvUDiv: "bvudiv", OBvSDiv: "bvsdiv",
	OBvURem: "bvurem", OBvSRem: "bvsrem", OBvAnd: "bvand", OBvOr: "bvor", OBvXor: "bvxor",
	OBvShl: "bvshl", OBvLShr: "bvlshr", OBvAShr: "bvashr", OBvNeg: "bvneg", OBvNot: "bvnot",
	OBvULT: "bvult", OBvULE: "bvule", OBvSLT: "bvslt", OBvSLE: "bvsle", OConcat: "concat",
	OIAdd: "+", OISub: "-", OIMul: "*", OIDiv: "div", OIMod: "mod", OINeg: "-", OIAbs: "abs",
	OILT: "<", OILE: "<=", OBV2Int: "bv2nat",
}

type Term struct {
	ID   int
	Op   Op
	Sort Sort
	Args []*Term
	Val  uint64   // const (W<=64 / bool); Extract: hi<<16|lo; ZExt/SExt: added bits
	Big  *big.Int // const of sort Int or BV wider than 64
	Name string   // var / UF name
}

func (t *Term) IsConst() bool { return t.Op == OConst }
func (t *Term) IsTrue() bool  { return t.Op == OConst && t.Sort.K == KBool && t.Val == 1 }
func (t *Term) IsFalse() bool { return t.Op == OConst && t.Sort.K == KBool && t.Val == 0 }

type TermStore struct {
	tab    map[string]*Term
	nextID int
	True   *Term
	False  *Term
	ufs    map[string]ufSig
	// Injective: uninterpreted functions assumed collision-free (hash models); equalities
	// between their applications are rewritten to equalities of the arguments.
	Injective map[string]bool
	// NonRange: ids of terms assumed not to be the output of any Injective function (per path).
	NonRange map[int]bool
	// KnownHash: real outputs of modelled hash functions on concrete inputs (see hashconst.go)
	KnownHash map[string]knownHash
	// MinSliceBits: width from which equal slices of two hashes count as equal hashes
	// (0 = default 64; Params["shorthash_injective"]=1 sets 40 for chain33's 5-byte short hash)
	MinSliceBits int
	kb           strings.Builder
}

type ufSig struct {
	args []Sort
	res  Sort
}

func NewTermStore() *TermStore {
	ts := &TermStore{tab: make(map[string]*Term), ufs: make(map[string]ufSig), Injective: map[string]bool{}, NonRange: map[int]bool{}, KnownHash: map[string]knownHash{}}
	ts.True = ts.mk(&Term{Op: OConst, Sort: BoolSort, Val: 1})
	ts.False = ts.mk(&Term{Op: OConst, Sort: BoolSort, Val: 0})
	return ts
}

func (ts *TermStore) mk(t *Term) *Term {
	b := &ts.kb
	b.Reset()
	b.WriteByte(byte(t.Op))
	b.WriteByte(byte(t.Sort.K))
	b.WriteString(strconv.Itoa(t.Sort.W))
	b.WriteByte('|')
	b.WriteString(strconv.FormatUint(t.Val, 16))
	if t.Big != nil {
		b.WriteByte('#')
		b.WriteString(t.Big.Text(16))
	}
	if t.Name != "" {
		b.WriteByte('$')
		b.WriteString(t.Name)
	}
	for _, a := range t.Args {
		b.WriteByte(',')
		b.WriteString(strconv.Itoa(a.ID))
	}
	k := b.String()
	if old, ok := ts.tab[k]; ok {
		return old
	}
	ts.nextID++
	t.ID = ts.nextID
	ts.tab[k] = t
	return t
}

func mask(w int) uint64 {
	if w >= 64 {
		return ^uint64(0)
	}
	return (uint64(1) << uint(w)) - 1
}

func (ts *TermStore) Bool(b bool) *Term {
	if b {
		return ts.True
	}
	return ts.False
}

func (ts *TermStore) BVConst(v uint64, w int) *Term {
	if w > 64 {
		return ts.mk(&Term{Op: OConst, Sort: BV(w), Big: new(big.Int).SetUint64(v)})
	}
	return ts.mk(&Term{Op: OConst, Sort: BV(w), Val: v & mask(w)})
}

func (ts *TermStore) BVConstBig(v *big.Int, w int) *Term {
	m := new(big.Int).Lsh(big.NewInt(1), uint(w))
	x := new(big.Int).Mod(v, m)
	if w <= 64 {
		return ts.BVConst(x.Uint64(), w)
	}
	return ts.mk(&Term{Op: OConst, Sort: BV(w), Big: x})
}

func (ts *TermStore) IntConst(v *big.Int) *Term {
	return ts.mk(&Term{Op: OConst, Sort: IntSort, Big: new(big.Int).Set(v)})
}

func (ts *TermStore) IntConst64(v int64) *Term { return ts.IntConst(big.NewInt(v)) }

func (ts *TermStore) Var(name string, s Sort) *Term {
	return ts.mk(&Term{Op: OVar, Sort: s, Name: name})
}

// App builds an uninterpreted-function application.
func (ts *TermStore) App(name string, res Sort, args ...*Term) *Term {
	if _, ok := ts.ufs[name]; !ok {
		sig := ufSig{res: res}
		for _, a := range args {
			sig.args = append(sig.args, a.Sort)
		}
		ts.ufs[name] = sig
	}
	return ts.mk(&Term{Op: OApp, Sort: res, Name: name, Args: args})
}

func sext64(v uint64, w int) int64 {
	if w >= 64 {
		return int64(v)
	}
	sh := uint(64 - w)
	return int64(v<<sh) >> sh
}

// ---------------------------------------------------------------- boolean

func (ts *TermStore) Not(a *Term) *Term {
	if a.IsConst() {
		return ts.Bool(a.Val == 0)
	}
	switch a.Op {
	case ONot:
		return a.Args[0]
	case OBvULT:
		return ts.mk(&Term{Op: OBvULE, Sort: BoolSort, Args: []*Term{a.Args[1], a.Args[0]}})
	case OBvULE:
		return ts.mk(&Term{Op: OBvULT, Sort: BoolSort, Args: []*Term{a.Args[1], a.Args[0]}})
	case OBvSLT:
		return ts.mk(&Term{Op: OBvSLE, Sort: BoolSort, Args: []*Term{a.Args[1], a.Args[0]}})
	case OBvSLE:
		return ts.mk(&Term{Op: OBvSLT, Sort: BoolSort, Args: []*Term{a.Args[1], a.Args[0]}})
	}
	return ts.mk(&Term{Op: ONot, Sort: BoolSort, Args: []*Term{a}})
}

func (ts *TermStore) And(xs ...*Term) *Term {
	var out []*Term
	seen := map[int]bool{}
	for _, x := range xs {
		if x.IsFalse() {
			return ts.False
		}
		if x.IsTrue() {
			continue
		}
		if x.Op == OAnd {
			for _, y := range x.Args {
				if !seen[y.ID] {
					seen[y.ID] = true
					out = append(out, y)
				}
			}
			continue
		}
		if !seen[x.ID] {
			seen[x.ID] = true
			out = append(out, x)
		}
	}
	for _, x := range out {
		if x.Op == ONot && seen[x.Args[0].ID] {
			return ts.False
		}
	}
	switch len(out) {
	case 0:
		return ts.True
	case 1:
		return out[0]
	}
	return ts.mk(&Term{Op: OAnd, Sort: BoolSort, Args: out})
}

func (ts *TermStore) Or(xs ...*Term) *Term {
	var out []*Term
	seen := map[int]bool{}
	for _, x := range xs {
		if x.IsTrue() {
			return ts.True
		}
		if x.IsFalse() {
			continue
		}
		if x.Op == OOr {
			for _, y := range x.Args {
				if !seen[y.ID] {
					seen[y.ID] = true
					out = append(out, y)
				}
			}
			continue
		}
		if !seen[x.ID] {
			seen[x.ID] = true
			out = append(out, x)
		}
	}
	for _, x := range out {
		if x.Op == ONot && seen[x.Args[0].ID] {
			return ts.True
		}
	}
	switch len(out) {
	case 0:
		return ts.False
	case 1:
		return out[0]
	}
	return ts.mk(&Term{Op: OOr, Sort: BoolSort, Args: out})
}

func (ts *TermStore) Implies(a, b *Term) *Term { return ts.Or(ts.Not(a), b) }

func (ts *TermStore) Ite(c, a, b *Term) *Term {
	if c.IsTrue() {
		return a
	}
	if c.IsFalse() {
		return b
	}
	if a == b {
		return a
	}
	if a.Sort.K == KBool {
		if a.IsTrue() && b.IsFalse() {
			return c
		}
		if a.IsFalse() && b.IsTrue() {
			return ts.Not(c)
		}
		if a.IsTrue() {
			return ts.Or(c, b)
		}
		if a.IsFalse() {
			return ts.And(ts.Not(c), b)
		}
		if b.IsTrue() {
			return ts.Or(ts.Not(c), a)
		}
		if b.IsFalse() {
			return ts.And(c, a)
		}
	}
	if c.Op == ONot {
		return ts.Ite(c.Args[0], b, a)
	}
	return ts.mk(&Term{Op: OIte, Sort: a.Sort, Args: []*Term{c, a, b}})
}

func (ts *TermStore) Eq(a, b *Term) *Term {
	if a == b {
		return ts.True
	}
	if a.Sort != b.Sort {
		panic(fmt.Sprintf("Eq: sort mismatch %v vs %v", a.Sort, b.Sort))
	}
	if a.IsConst() && b.IsConst() {
		if a.Big != nil || b.Big != nil {
			return ts.Bool(constBig(a).Cmp(constBig(b)) == 0)
		}
		return ts.Bool(a.Val == b.Val)
	}
	if len(ts.Injective) > 0 && a.Sort.K == KBV {
		if a.Op == OApp && b.Op == OApp && ts.Injective[a.Name] && ts.Injective[b.Name] {
			if a.Name == b.Name {
				conj := make([]*Term, len(a.Args))
				for k := range a.Args {
					conj[k] = ts.Eq(a.Args[k], b.Args[k])
				}
				return ts.And(conj...)
			}
			return ts.False // collision-free across input lengths / functions too
		}
		if (a.Op == OApp && ts.Injective[a.Name] && ts.NonRange[b.ID]) || (b.Op == OApp && ts.Injective[b.Name] && ts.NonRange[a.ID]) {
			return ts.False
		}
		if a.Op == OConcat && b.Op == OConcat && a.Args[0].Sort == b.Args[0].Sort {
			return ts.And(ts.Eq(a.Args[0], b.Args[0]), ts.Eq(a.Args[1], b.Args[1]))
		}
		if r := ts.eqHashConst(a, b); r != nil {
			return r
		}
		// equal slices (>= 8 bytes, same position) of two collision-free hashes: treated
		// as equality of the hashes (truncated-hash collisions are outside every claim)
		if a.Op == OExtract && b.Op == OExtract && a.Val == b.Val && a.Sort.W >= ts.minSliceBits() {
			x, y := a.Args[0], b.Args[0]
			if x.Op == OApp && y.Op == OApp && ts.Injective[x.Name] && ts.Injective[y.Name] {
				return ts.Eq(x, y)
			}
		}
	}
	if a.Sort.K == KBool {
		if a.IsConst() {
			a, b = b, a
		}
		if b.IsTrue() {
			return a
		}
		if b.IsFalse() {
			return ts.Not(a)
		}
	}
	// (ite c k1 k2) == k  with constants
	if b.IsConst() && a.Op == OIte && a.Args[1].IsConst() && a.Args[2].IsConst() {
		return ts.Ite(a.Args[0], ts.Eq(a.Args[1], b), ts.Eq(a.Args[2], b))
	}
	if a.IsConst() && b.Op == OIte && b.Args[1].IsConst() && b.Args[2].IsConst() {
		return ts.Ite(b.Args[0], ts.Eq(b.Args[1], a), ts.Eq(b.Args[2], a))
	}
	// zero-extended value against constant
	if b.IsConst() && a.Op == OZExt && b.Big == nil {
		inner := a.Args[0]
		if b.Val > mask(inner.Sort.W) {
			return ts.False
		}
		return ts.Eq(inner, ts.BVConst(b.Val, inner.Sort.W))
	}
	if a.Sort.K == KInt {
		if a.IsConst() {
			a, b = b, a
		}
		if b.IsConst() {
			switch a.Op {
			case OBV2Int:
				x := a.Args[0]
				if b.Big.Sign() < 0 || b.Big.BitLen() > x.Sort.W {
					return ts.False
				}
				return ts.Eq(x, ts.BVConstBig(b.Big, x.Sort.W))
			case OINeg:
				return ts.Eq(a.Args[0], ts.INeg(b))
			case OIMul:
				if x, c, ok := mulConst(a); ok && c.Sign() != 0 {
					q, m := new(big.Int).QuoRem(b.Big, c, new(big.Int))
					if m.Sign() != 0 {
						return ts.False
					}
					return ts.Eq(x, ts.IntConst(q))
				}
			}
		}
		if a.Op == OBV2Int && b.Op == OBV2Int && a.Args[0].Sort == b.Args[0].Sort {
			return ts.Eq(a.Args[0], b.Args[0])
		}
	}
	if a.ID > b.ID {
		a, b = b, a
	}
	return ts.mk(&Term{Op: OEq, Sort: BoolSort, Args: []*Term{a, b}})
}

func constBig(t *Term) *big.Int {
	if t.Big != nil {
		return t.Big
	}
	return new(big.Int).SetUint64(t.Val)
}

// ---------------------------------------------------------------- bit-vectors

func (ts *TermStore) bvFold(op Op, a, b *Term) (*Term, bool) {
	w := a.Sort.W
	if !(a.IsConst() && b.IsConst()) || w > 64 {
		return nil, false
	}
	x, y := a.Val, b.Val
	var r uint64
	switch op {
	case OBvAdd:
		r = x + y
	case OBvSub:
		r = x - y
	case OBvMul:
		r = x * y
	case OBvUDiv:
		if y == 0 {
			r = mask(w)
		} else {
			r = x / y
		}
	case OBvURem:
		if y == 0 {
			r = x
		} else {
			r = x % y
		}
	case OBvSDiv:
		sx, sy := sext64(x, w), sext64(y, w)
		if sy == 0 {
			if sx >= 0 {
				r = mask(w)
			} else {
				r = 1
			}
		} else if sy == -1 {
			r = uint64(-sx)
		} else {
			r = uint64(sx / sy)
		}
	case OBvSRem:
		sx, sy := sext64(x, w), sext64(y, w)
		if sy == 0 {
			r = x
		} else if sy == -1 {
			r = 0
		} else {
			r = uint64(sx % sy)
		}
	case OBvAnd:
		r = x & y
	case OBvOr:
		r = x | y
	case OBvXor:
		r = x ^ y
	case OBvShl:
		if y >= uint64(w) {
			r = 0
		} else {
			r = x << y
		}
	case OBvLShr:
		if y >= uint64(w) {
			r = 0
		} else {
			r = x >> y
		}
	case OBvAShr:
		sx := sext64(x, w)
		if y >= uint64(w) {
			y = uint64(w - 1)
		}
		r = uint64(sx >> y)
	default:
		return nil, false
	}
	return ts.BVConst(r, w), true
}

func (ts *TermStore) BvBin(op Op, a, b *Term) *Term {
	if a.Sort != b.Sort {
		panic(fmt.Sprintf("BvBin %s: sort mismatch %v vs %v", opName[op], a.Sort, b.Sort))
	}
	if r, ok := ts.bvFold(op, a, b); ok {
		return r
	}
	w := a.Sort.W
	if w > 64 && a.IsConst() && b.IsConst() {
		tmp := &Term{Op: op, Sort: a.Sort, Args: []*Term{a, b}}
		if v, ok := ts.eval1(tmp, Model{}, map[int]*big.Int{}); ok {
			return ts.BVConstBig(v, w)
		}
	}
	isZero := func(t *Term) bool { return t.IsConst() && t.Big == nil && t.Val == 0 }
	isOnes := func(t *Term) bool { return t.IsConst() && t.Big == nil && w <= 64 && t.Val == mask(w) }
	switch op {
	case OBvAdd:
		if isZero(a) {
			return b
		}
		if isZero(b) {
			return a
		}
	case OBvSub:
		if isZero(b) {
			return a
		}
		if a == b {
			return ts.BVConst(0, w)
		}
	case OBvMul:
		if isZero(a) || isZero(b) {
			return ts.BVConst(0, w)
		}
		if a.IsConst() && a.Val == 1 && a.Big == nil {
			return b
		}
		if b.IsConst() && b.Val == 1 && b.Big == nil {
			return a
		}
	case OBvAnd:
		if isZero(a) || isZero(b) {
			return ts.BVConst(0, w)
		}
		if w <= 64 {
			x, c := a, b
			if x.IsConst() {
				x, c = b, a
			}
			if c.IsConst() && !x.IsConst() {
				// (y & A) & B = y & (A&B)
				if x.Op == OBvAnd {
					if x.Args[0].IsConst() {
						return ts.BvBin(OBvAnd, x.Args[1], ts.BVConst(x.Args[0].Val&c.Val, w))
					}
					if x.Args[1].IsConst() {
						return ts.BvBin(OBvAnd, x.Args[0], ts.BVConst(x.Args[1].Val&c.Val, w))
					}
				}
				// (y | A) & B = (y & B) | (A & B)
				if x.Op == OBvOr {
					if x.Args[0].IsConst() {
						return ts.BvBin(OBvOr, ts.BvBin(OBvAnd, x.Args[1], c), ts.BVConst(x.Args[0].Val&c.Val, w))
					}
					if x.Args[1].IsConst() {
						return ts.BvBin(OBvOr, ts.BvBin(OBvAnd, x.Args[0], c), ts.BVConst(x.Args[1].Val&c.Val, w))
					}
				}
				// zext(y) & B where B only has bits above y's width
				if x.Op == OZExt && c.Val&mask(x.Args[0].Sort.W) == 0 {
					return ts.BVConst(0, w)
				}
			}
		}
		if isOnes(a) {
			return b
		}
		if isOnes(b) {
			return a
		}
		if a == b {
			return a
		}
	case OBvOr:
		if isZero(a) {
			return b
		}
		if isZero(b) {
			return a
		}
		if a == b {
			return a
		}
	case OBvXor:
		if isZero(a) {
			return b
		}
		if isZero(b) {
			return a
		}
		if a == b {
			return ts.BVConst(0, w)
		}
	case OBvShl, OBvLShr, OBvAShr:
		if isZero(b) {
			return a
		}
		if isZero(a) {
			return a
		}
	}
	// commutative ops: canonical order
	switch op {
	case OBvAdd, OBvMul, OBvAnd, OBvOr, OBvXor:
		if a.ID > b.ID {
			a, b = b, a
		}
	}
	return ts.mk(&Term{Op: op, Sort: a.Sort, Args: []*Term{a, b}})
}

func (ts *TermStore) BvNeg(a *Term) *Term {
	if a.IsConst() && a.Big == nil {
		return ts.BVConst(-a.Val, a.Sort.W)
	}
	if a.IsConst() {
		return ts.BVConstBig(new(big.Int).Neg(a.Big), a.Sort.W)
	}
	if a.Op == OBvNeg {
		return a.Args[0]
	}
	return ts.mk(&Term{Op: OBvNeg, Sort: a.Sort, Args: []*Term{a}})
}

func (ts *TermStore) BvNot(a *Term) *Term {
	if a.IsConst() && a.Big == nil {
		return ts.BVConst(^a.Val, a.Sort.W)
	}
	if a.Op == OBvNot {
		return a.Args[0]
	}
	return ts.mk(&Term{Op: OBvNot, Sort: a.Sort, Args: []*Term{a}})
}

func (ts *TermStore) BvCmp(op Op, a, b *Term) *Term {
	if a.Sort != b.Sort {
		panic(fmt.Sprintf("BvCmp %s: sort mismatch %v vs %v", opName[op], a.Sort, b.Sort))
	}
	w := a.Sort.W
	if a.IsConst() && b.IsConst() && w <= 64 {
		switch op {
		case OBvULT:
			return ts.Bool(a.Val < b.Val)
		case OBvULE:
			return ts.Bool(a.Val <= b.Val)
		case OBvSLT:
			return ts.Bool(sext64(a.Val, w) < sext64(b.Val, w))
		case OBvSLE:
			return ts.Bool(sext64(a.Val, w) <= sext64(b.Val, w))
		}
	}
	if a == b {
		return ts.Bool(op == OBvULE || op == OBvSLE)
	}
	if w > 64 && a.IsConst() && b.IsConst() {
		tmp := &Term{Op: op, Sort: BoolSort, Args: []*Term{a, b}}
		if v, ok := ts.eval1(tmp, Model{}, map[int]*big.Int{}); ok {
			return ts.Bool(v.Sign() != 0)
		}
	}
	if a.Op == OZExt && b.IsConst() && b.Big == nil && (op == OBvSLT || op == OBvSLE) && sext64(b.Val, w) >= 0 {
		if op == OBvSLT {
			return ts.BvCmp(OBvULT, a, b)
		}
		return ts.BvCmp(OBvULE, a, b)
	}
	if b.Op == OZExt && a.IsConst() && a.Big == nil && (op == OBvSLT || op == OBvSLE) && sext64(a.Val, w) >= 0 {
		if op == OBvSLT {
			return ts.BvCmp(OBvULT, a, b)
		}
		return ts.BvCmp(OBvULE, a, b)
	}
	if a.Op == OZExt && b.IsConst() && b.Big == nil && (op == OBvSLT || op == OBvSLE) && sext64(b.Val, w) < 0 {
		return ts.False
	}
	if w <= 64 {
		switch op {
		case OBvULT:
			if b.IsConst() && b.Val == 0 {
				return ts.False
			}
		case OBvULE:
			if a.IsConst() && a.Val == 0 {
				return ts.True
			}
			if b.IsConst() && b.Val == mask(w) {
				return ts.True
			}
		}
		// zero-extended operand against a constant
		if a.Op == OZExt && b.IsConst() && (op == OBvULT || op == OBvULE) {
			iw := a.Args[0].Sort.W
			if b.Val > mask(iw) {
				return ts.True
			}
			return ts.BvCmp(op, a.Args[0], ts.BVConst(b.Val, iw))
		}
		if b.Op == OZExt && a.IsConst() && (op == OBvULT || op == OBvULE) {
			iw := b.Args[0].Sort.W
			if a.Val > mask(iw) {
				return ts.False
			}
			return ts.BvCmp(op, ts.BVConst(a.Val, iw), b.Args[0])
		}
	}
	return ts.mk(&Term{Op: op, Sort: BoolSort, Args: []*Term{a, b}})
}

func (ts *TermStore) Extract(a *Term, hi, lo int) *Term {
	w := hi - lo + 1
	if lo == 0 && w == a.Sort.W {
		return a
	}
	if a.IsConst() {
		if a.Big != nil {
			x := new(big.Int).Rsh(a.Big, uint(lo))
			return ts.BVConstBig(x, w)
		}
		return ts.BVConst(a.Val>>uint(lo), w)
	}
	switch a.Op {
	case OZExt, OSExt:
		iw := a.Args[0].Sort.W
		if hi < iw {
			return ts.Extract(a.Args[0], hi, lo)
		}
		if a.Op == OZExt && lo >= iw {
			return ts.BVConst(0, w)
		}
	case OExtract:
		ilo := int(a.Val & 0xffff)
		return ts.Extract(a.Args[0], hi+ilo, lo+ilo)
	case OConcat:
		lw := a.Args[1].Sort.W
		if hi < lw {
			return ts.Extract(a.Args[1], hi, lo)
		}
		if lo >= lw {
			return ts.Extract(a.Args[0], hi-lw, lo-lw)
		}
	}
	return ts.mk(&Term{Op: OExtract, Sort: BV(w), Args: []*Term{a}, Val: uint64(hi)<<16 | uint64(lo)})
}

func (ts *TermStore) ZExt(a *Term, to int) *Term {
	n := to - a.Sort.W
	if n == 0 {
		return a
	}
	if n < 0 {
		return ts.Extract(a, to-1, 0)
	}
	if a.IsConst() && a.Big == nil && to <= 64 {
		return ts.BVConst(a.Val, to)
	}
	if a.Op == OZExt {
		return ts.ZExt(a.Args[0], to)
	}
	return ts.mk(&Term{Op: OZExt, Sort: BV(to), Args: []*Term{a}, Val: uint64(n)})
}

func (ts *TermStore) SExt(a *Term, to int) *Term {
	n := to - a.Sort.W
	if n == 0 {
		return a
	}
	if n < 0 {
		return ts.Extract(a, to-1, 0)
	}
	if a.IsConst() && a.Big == nil && to <= 64 {
		return ts.BVConst(uint64(sext64(a.Val, a.Sort.W)), to)
	}
	if a.Op == OZExt {
		// already non-negative
		return ts.ZExt(a.Args[0], to)
	}
	return ts.mk(&Term{Op: OSExt, Sort: BV(to), Args: []*Term{a}, Val: uint64(n)})
}

func (ts *TermStore) Concat(hi, lo *Term) *Term {
	w := hi.Sort.W + lo.Sort.W
	if hi.IsConst() && lo.IsConst() && w <= 64 {
		return ts.BVConst(hi.Val<<uint(lo.Sort.W)|lo.Val, w)
	}
	if hi.Op == OExtract && lo.Op == OExtract && hi.Args[0] == lo.Args[0] && int(hi.Val&0xffff) == int(lo.Val>>16)+1 {
		return ts.Extract(hi.Args[0], int(hi.Val>>16), int(lo.Val&0xffff))
	}
	return ts.mk(&Term{Op: OConcat, Sort: BV(w), Args: []*Term{hi, lo}})
}

// ---------------------------------------------------------------- integers

func (ts *TermStore) IntBin(op Op, a, b *Term) *Term {
	if a.Sort.K != KInt || b.Sort.K != KInt {
		panic("IntBin: non-int operand")
	}
	if a.IsConst() && b.IsConst() {
		x, y := a.Big, b.Big
		r := new(big.Int)
		switch op {
		case OIAdd:
			return ts.IntConst(r.Add(x, y))
		case OISub:
			return ts.IntConst(r.Sub(x, y))
		case OIMul:
			return ts.IntConst(r.Mul(x, y))
		case OIDiv: // SMT-LIB euclidean div
			if y.Sign() != 0 {
				return ts.IntConst(r.Div(x, y))
			}
		case OIMod:
			if y.Sign() != 0 {
				return ts.IntConst(r.Mod(x, y))
			}
		}
	}
	switch op {
	case OIAdd:
		if a.IsConst() && a.Big.Sign() == 0 {
			return b
		}
		if b.IsConst() && b.Big.Sign() == 0 {
			return a
		}
	case OISub:
		if b.IsConst() && b.Big.Sign() == 0 {
			return a
		}
	case OIMul:
		if a.IsConst() && a.Big.Cmp(big.NewInt(1)) == 0 {
			return b
		}
		if b.IsConst() && b.Big.Cmp(big.NewInt(1)) == 0 {
			return a
		}
	case OIDiv:
		if b.IsConst() && b.Big.Cmp(big.NewInt(1)) == 0 {
			return a
		}
		// (x * c) div d with c, d positive constants, one dividing the other
		if b.IsConst() && b.Big.Sign() > 0 && a.Op == OIMul {
			if x, c, ok := mulConst(a); ok && c.Sign() > 0 {
				if m := new(big.Int).Mod(c, b.Big); m.Sign() == 0 {
					return ts.IntBin(OIMul, x, ts.IntConst(new(big.Int).Div(c, b.Big)))
				}
				if m := new(big.Int).Mod(b.Big, c); m.Sign() == 0 {
					return ts.IntBin(OIDiv, x, ts.IntConst(new(big.Int).Div(b.Big, c)))
				}
			}
		}
	}
	if op == OIMul {
		// (x * c1) * c2 = x * (c1*c2)
		if b.IsConst() && a.Op == OIMul {
			if x, c, ok := mulConst(a); ok {
				return ts.IntBin(OIMul, x, ts.IntConst(new(big.Int).Mul(c, b.Big)))
			}
		}
		if a.IsConst() && !b.IsConst() {
			a, b = b, a
		}
		if b.IsConst() && b.Big.Sign() == 0 {
			return b
		}
	}
	return ts.mk(&Term{Op: op, Sort: IntSort, Args: []*Term{a, b}})
}

func (ts *TermStore) INeg(a *Term) *Term {
	if a.IsConst() {
		return ts.IntConst(new(big.Int).Neg(a.Big))
	}
	if a.Op == OINeg {
		return a.Args[0]
	}
	return ts.mk(&Term{Op: OINeg, Sort: IntSort, Args: []*Term{a}})
}

// nonNeg reports whether an Int term is syntactically known to be >= 0.
func nonNeg(a *Term) bool {
	switch a.Op {
	case OConst:
		return a.Big.Sign() >= 0
	case OBV2Int, OIAbs:
		return true
	case OIAdd, OIMul:
		return nonNeg(a.Args[0]) && nonNeg(a.Args[1])
	case OIDiv:
		return nonNeg(a.Args[0]) && a.Args[1].IsConst() && a.Args[1].Big.Sign() > 0
	case OIMod:
		return a.Args[1].IsConst() && a.Args[1].Big.Sign() > 0
	case OIte:
		return nonNeg(a.Args[1]) && nonNeg(a.Args[2])
	}
	return false
}

func (ts *TermStore) IAbs(a *Term) *Term {
	if a.IsConst() {
		return ts.IntConst(new(big.Int).Abs(a.Big))
	}
	if a.Op == OINeg {
		return ts.IAbs(a.Args[0])
	}
	if nonNeg(a) {
		return a
	}
	return ts.mk(&Term{Op: OIAbs, Sort: IntSort, Args: []*Term{a}})
}

func (ts *TermStore) ICmp(op Op, a, b *Term) *Term {
	if a.IsConst() && b.IsConst() {
		c := a.Big.Cmp(b.Big)
		if op == OILT {
			return ts.Bool(c < 0)
		}
		return ts.Bool(c <= 0)
	}
	if a == b {
		return ts.Bool(op == OILE)
	}
	// -x op c  <=>  -c op x ;  c op -x  <=>  x op -c
	if a.Op == OINeg && b.IsConst() {
		return ts.ICmp(op, ts.INeg(b), a.Args[0])
	}
	if b.Op == OINeg && a.IsConst() {
		return ts.ICmp(op, b.Args[0], ts.INeg(a))
	}
	// (x * c) op d with constant c > 0
	if a.Op == OIMul && b.IsConst() {
		if x, c, ok := mulConst(a); ok && c.Sign() > 0 {
			if op == OILT { // x*c < d  <=> x < ceil(d/c)
				return ts.ICmp(OILT, x, ts.IntConst(ceilDiv(b.Big, c)))
			}
			return ts.ICmp(OILE, x, ts.IntConst(floorDiv(b.Big, c)))
		}
	}
	if b.Op == OIMul && a.IsConst() {
		if x, c, ok := mulConst(b); ok && c.Sign() > 0 {
			if op == OILT { // d < x*c <=> floor(d/c) < x
				return ts.ICmp(OILT, ts.IntConst(floorDiv(a.Big, c)), x)
			}
			return ts.ICmp(OILE, ts.IntConst(ceilDiv(a.Big, c)), x)
		}
	}
	// bv2nat(x) against a constant
	if a.Op == OBV2Int && b.IsConst() {
		x := a.Args[0]
		w := x.Sort.W
		lim := new(big.Int).Lsh(big.NewInt(1), uint(w))
		switch {
		case b.Big.Sign() < 0:
			return ts.False
		case b.Big.Cmp(lim) >= 0:
			return ts.True
		case op == OILT:
			return ts.BvCmp(OBvULT, x, ts.BVConstBig(b.Big, w))
		default:
			return ts.BvCmp(OBvULE, x, ts.BVConstBig(b.Big, w))
		}
	}
	if b.Op == OBV2Int && a.IsConst() {
		x := b.Args[0]
		w := x.Sort.W
		lim := new(big.Int).Lsh(big.NewInt(1), uint(w))
		switch {
		case a.Big.Sign() < 0:
			return ts.True
		case a.Big.Cmp(lim) >= 0:
			return ts.False
		case op == OILT:
			return ts.BvCmp(OBvULT, ts.BVConstBig(a.Big, w), x)
		default:
			return ts.BvCmp(OBvULE, ts.BVConstBig(a.Big, w), x)
		}
	}
	if a.Op == OBV2Int && b.Op == OBV2Int && a.Args[0].Sort == b.Args[0].Sort {
		if op == OILT {
			return ts.BvCmp(OBvULT, a.Args[0], b.Args[0])
		}
		return ts.BvCmp(OBvULE, a.Args[0], b.Args[0])
	}
	return ts.mk(&Term{Op: op, Sort: BoolSort, Args: []*Term{a, b}})
}

func mulConst(t *Term) (x *Term, c *big.Int, ok bool) {
	if t.Args[1].IsConst() {
		return t.Args[0], t.Args[1].Big, true
	}
	if t.Args[0].IsConst() {
		return t.Args[1], t.Args[0].Big, true
	}
	return nil, nil, false
}

func floorDiv(a, b *big.Int) *big.Int { // b > 0
	q, m := new(big.Int).DivMod(a, b, new(big.Int))
	_ = m
	return q // Euclidean division with positive divisor is floor
}

func ceilDiv(a, b *big.Int) *big.Int {
	q, m := new(big.Int).DivMod(a, b, new(big.Int))
	if m.Sign() != 0 {
		q.Add(q, big.NewInt(1))
	}
	return q
}

func isPow2(c *big.Int) (uint, bool) {
	if c.Sign() <= 0 {
		return 0, false
	}
	n := uint(c.BitLen() - 1)
	if new(big.Int).Lsh(big.NewInt(1), n).Cmp(c) == 0 {
		return n, true
	}
	return 0, false
}

// resize zero-extends or truncates a bit-vector to w bits.
func (ts *TermStore) resize(a *Term, w int) *Term {
	if a.Sort.W == w {
		return a
	}
	if a.Sort.W < w {
		return ts.ZExt(a, w)
	}
	return ts.Extract(a, w-1, 0)
}

// BV2Int: unsigned value of a bit-vector as Int.
func (ts *TermStore) BV2Int(a *Term) *Term {
	if a.IsConst() {
		return ts.IntConst(constBig(a))
	}
	if a.Op == OZExt {
		return ts.BV2Int(a.Args[0])
	}
	return ts.mk(&Term{Op: OBV2Int, Sort: IntSort, Args: []*Term{a}})
}

// BV2IntSigned: two's-complement value as Int.
func (ts *TermStore) BV2IntSigned(a *Term) *Term {
	w := a.Sort.W
	u := ts.BV2Int(a)
	neg := ts.BvCmp(OBvSLT, a, ts.BVConst(0, w))
	mod := ts.IntConst(new(big.Int).Lsh(big.NewInt(1), uint(w)))
	return ts.Ite(neg, ts.IntBin(OISub, u, mod), u)
}

func (ts *TermStore) Int2BV(a *Term, w int) *Term {
	if a.IsConst() {
		return ts.BVConstBig(a.Big, w)
	}
	// push the conversion towards the leaves (all of these are exact modulo 2^w)
	switch a.Op {
	case OBV2Int:
		return ts.resize(a.Args[0], w)
	case OINeg:
		return ts.BvNeg(ts.Int2BV(a.Args[0], w))
	case OIAdd:
		return ts.BvBin(OBvAdd, ts.Int2BV(a.Args[0], w), ts.Int2BV(a.Args[1], w))
	case OISub:
		return ts.BvBin(OBvSub, ts.Int2BV(a.Args[0], w), ts.Int2BV(a.Args[1], w))
	case OIMul:
		if x, c, ok := mulConst(a); ok {
			if k, p2 := isPow2(c); p2 {
				if int(k) >= w {
					return ts.BVConst(0, w)
				}
				return ts.BvBin(OBvShl, ts.Int2BV(x, w), ts.BVConst(uint64(k), w))
			}
		}
	case OIDiv:
		// floor(bv2nat(x) / 2^k) = bv2nat(x >> k)
		if a.Args[0].Op == OBV2Int && a.Args[1].IsConst() {
			if k, p2 := isPow2(a.Args[1].Big); p2 {
				x := a.Args[0].Args[0]
				if int(k) >= x.Sort.W {
					return ts.BVConst(0, w)
				}
				return ts.resize(ts.BvBin(OBvLShr, x, ts.BVConst(uint64(k), x.Sort.W)), w)
			}
		}
	case OIte:
		return ts.Ite(a.Args[0], ts.Int2BV(a.Args[1], w), ts.Int2BV(a.Args[2], w))
	}
	return ts.mk(&Term{Op: OInt2BV, Sort: BV(w), Args: []*Term{a}, Val: uint64(w)})
}

// ---------------------------------------------------------------- printing

func (t *Term) constSMT() string {
	switch t.Sort.K {
	case KBool:
		if t.Val == 1 {
			return "true"
		}
		return "false"
	case KInt:
		if t.Big.Sign() < 0 {
			return "(- " + new(big.Int).Neg(t.Big).String() + ")"
		}
		return t.Big.String()
	}
	if t.Big != nil {
		return "(_ bv" + t.Big.String() + " " + strconv.Itoa(t.Sort.W) + ")"
	}
	return "(_ bv" + strconv.FormatUint(t.Val, 10) + " " + strconv.Itoa(t.Sort.W) + ")"
}

// ref is how the term is referred to from other definitions.
func (t *Term) ref() string {
	switch t.Op {
	case OConst:
		return t.constSMT()
	case OVar:
		return t.Name
	}
	return "t" + strconv.Itoa(t.ID)
}

// body prints the operator applied to child refs.
func (t *Term) body() string {
	var b strings.Builder
	b.WriteByte('(')
	switch t.Op {
	case OApp:
		b.WriteString(t.Name)
	case OExtract:
		fmt.Fprintf(&b, "(_ extract %d %d)", t.Val>>16, t.Val&0xffff)
	case OZExt:
		fmt.Fprintf(&b, "(_ zero_extend %d)", t.Val)
	case OSExt:
		fmt.Fprintf(&b, "(_ sign_extend %d)", t.Val)
	case OInt2BV:
		fmt.Fprintf(&b, "(_ int2bv %d)", t.Val)
	default:
		b.WriteString(opName[t.Op])
	}
	for _, a := range t.Args {
		b.WriteByte(' ')
		b.WriteString(a.ref())
	}
	b.WriteByte(')')
	return b.String()
}

// String prints a fully inlined (tree) form; for diagnostics only.
func (t *Term) String() string {
	return t.str(0)
}

func (t *Term) str(depth int) string {
	if t.Op == OConst || t.Op == OVar {
		return t.ref()
	}
	if depth > 6 {
		return "…"
	}
	var b strings.Builder
	b.WriteByte('(')
	switch t.Op {
	case OApp:
		b.WriteString(t.Name)
	case OExtract:
		fmt.Fprintf(&b, "(_ extract %d %d)", t.Val>>16, t.Val&0xffff)
	case OZExt:
		fmt.Fprintf(&b, "(_ zero_extend %d)", t.Val)
	case OSExt:
		fmt.Fprintf(&b, "(_ sign_extend %d)", t.Val)
	case OInt2BV:
		fmt.Fprintf(&b, "(_ int2bv %d)", t.Val)
	default:
		b.WriteString(opName[t.Op])
	}
	for _, a := range t.Args {
		b.WriteByte(' ')
		b.WriteString(a.str(depth + 1))
	}
	b.WriteByte(')')
	return b.String()
}

// ---------------------------------------------------------------- evaluation

// Model maps variable names to values (uint64 for BV<=64 and Bool(0/1), *big.Int otherwise).
type Model map[string]*big.Int

// Eval evaluates t under m. ok=false if t contains an uninterpreted function
// or a variable missing from m (treated as unknown).
func (ts *TermStore) Eval(t *Term, m Model, memo map[int]*big.Int) (*big.Int, bool) {
	if v, ok := memo[t.ID]; ok {
		return v, v != nil
	}
	r, ok := ts.eval1(t, m, memo)
	if !ok {
		memo[t.ID] = nil
		return nil, false
	}
	memo[t.ID] = r
	return r, true
}

var bigOne = big.NewInt(1)

func bigMask(w int) *big.Int {
	return new(big.Int).Sub(new(big.Int).Lsh(bigOne, uint(w)), bigOne)
}

func toSigned(v *big.Int, w int) *big.Int {
	if v.Bit(w-1) == 1 {
		return new(big.Int).Sub(v, new(big.Int).Lsh(bigOne, uint(w)))
	}
	return v
}

func fromSigned(v *big.Int, w int) *big.Int {
	return new(big.Int).And(v, bigMask(w)) // big.Int And on negative uses two's complement semantics
}

func boolBig(b bool) *big.Int {
	if b {
		return big.NewInt(1)
	}
	return big.NewInt(0)
}

func (ts *TermStore) eval1(t *Term, m Model, memo map[int]*big.Int) (*big.Int, bool) {
	switch t.Op {
	case OConst:
		return constBig(t), true
	case OVar:
		v, ok := m[t.Name]
		if !ok {
			return big.NewInt(0), true // unconstrained variable: any value; pick 0
		}
		return v, true
	case OApp:
		return nil, false
	}
	args := make([]*big.Int, len(t.Args))
	if t.Op == OIte {
		c, ok := ts.Eval(t.Args[0], m, memo)
		if !ok {
			return nil, false
		}
		if c.Sign() != 0 {
			return ts.Eval(t.Args[1], m, memo)
		}
		return ts.Eval(t.Args[2], m, memo)
	}
	for i, a := range t.Args {
		v, ok := ts.Eval(a, m, memo)
		if !ok {
			return nil, false
		}
		args[i] = v
	}
	w := t.Sort.W
	if len(t.Args) > 0 && t.Args[0].Sort.K == KBV {
		w = t.Args[0].Sort.W
	}
	r := new(big.Int)
	switch t.Op {
	case ONot:
		return boolBig(args[0].Sign() == 0), true
	case OAnd:
		for _, a := range args {
			if a.Sign() == 0 {
				return boolBig(false), true
			}
		}
		return boolBig(true), true
	case OOr:
		for _, a := range args {
			if a.Sign() != 0 {
				return boolBig(true), true
			}
		}
		return boolBig(false), true
	case OEq:
		return boolBig(args[0].Cmp(args[1]) == 0), true
	case OBvAdd:
		return r.And(r.Add(args[0], args[1]), bigMask(w)), true
	case OBvSub:
		return fromSigned(r.Sub(args[0], args[1]), w), true
	case OBvMul:
		return r.And(r.Mul(args[0], args[1]), bigMask(w)), true
	case OBvUDiv:
		if args[1].Sign() == 0 {
			return bigMask(w), true
		}
		return r.Div(args[0], args[1]), true
	case OBvURem:
		if args[1].Sign() == 0 {
			return args[0], true
		}
		return r.Mod(args[0], args[1]), true
	case OBvSDiv:
		x, y := toSigned(args[0], w), toSigned(args[1], w)
		if y.Sign() == 0 {
			if x.Sign() >= 0 {
				return bigMask(w), true
			}
			return big.NewInt(1), true
		}
		return fromSigned(r.Quo(x, y), w), true
	case OBvSRem:
		x, y := toSigned(args[0], w), toSigned(args[1], w)
		if y.Sign() == 0 {
			return args[0], true
		}
		return fromSigned(r.Rem(x, y), w), true
	case OBvAnd:
		return r.And(args[0], args[1]), true
	case OBvOr:
		return r.Or(args[0], args[1]), true
	case OBvXor:
		return r.Xor(args[0], args[1]), true
	case OBvShl:
		if args[1].Cmp(big.NewInt(int64(w))) >= 0 {
			return big.NewInt(0), true
		}
		return r.And(r.Lsh(args[0], uint(args[1].Uint64())), bigMask(w)), true
	case OBvLShr:
		if args[1].Cmp(big.NewInt(int64(w))) >= 0 {
			return big.NewInt(0), true
		}
		return r.Rsh(args[0], uint(args[1].Uint64())), true
	case OBvAShr:
		x := toSigned(args[0], w)
		sh := uint(w)
		if args[1].Cmp(big.NewInt(int64(w))) < 0 {
			sh = uint(args[1].Uint64())
		}
		return fromSigned(r.Rsh(x, sh), w), true
	case OBvNeg:
		return fromSigned(r.Neg(args[0]), w), true
	case OBvNot:
		return r.Xor(args[0], bigMask(w)), true
	case OBvULT:
		return boolBig(args[0].Cmp(args[1]) < 0), true
	case OBvULE:
		return boolBig(args[0].Cmp(args[1]) <= 0), true
	case OBvSLT:
		return boolBig(toSigned(args[0], w).Cmp(toSigned(args[1], w)) < 0), true
	case OBvSLE:
		return boolBig(toSigned(args[0], w).Cmp(toSigned(args[1], w)) <= 0), true
	case OExtract:
		hi, lo := int(t.Val>>16), int(t.Val&0xffff)
		return r.And(r.Rsh(args[0], uint(lo)), bigMask(hi-lo+1)), true
	case OZExt:
		return args[0], true
	case OSExt:
		return fromSigned(toSigned(args[0], t.Args[0].Sort.W), t.Sort.W), true
	case OConcat:
		return r.Or(r.Lsh(args[0], uint(t.Args[1].Sort.W)), args[1]), true
	case OIAdd:
		return r.Add(args[0], args[1]), true
	case OISub:
		return r.Sub(args[0], args[1]), true
	case OIMul:
		return r.Mul(args[0], args[1]), true
	case OIDiv:
		if args[1].Sign() == 0 {
			return nil, false
		}
		return r.Div(args[0], args[1]), true
	case OIMod:
		if args[1].Sign() == 0 {
			return nil, false
		}
		return r.Mod(args[0], args[1]), true
	case OINeg:
		return r.Neg(args[0]), true
	case OIAbs:
		return r.Abs(args[0]), true
	case OILT:
		return boolBig(args[0].Cmp(args[1]) < 0), true
	case OILE:
		return boolBig(args[0].Cmp(args[1]) <= 0), true
	case OInt2BV:
		return fromSigned(args[0], t.Sort.W), true
	case OBV2Int:
		return args[0], true
	}
	return nil, false
}

var _ = bits.Len64
