package sym

import "os"

var initProf = os.Getenv("VERIF_INITPROF") != ""
