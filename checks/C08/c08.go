package PKGNAME

import "bytes"

// three-layer model: open transaction / committed overlay / base; empty value hides
type verifC08Model struct {
	intx bool
	tx   map[int][]byte
	over map[int][]byte
	base map[int][]byte
}

func (m *verifC08Model) get(k int) ([]byte, bool) {
	if m.intx {
		if v, ok := m.tx[k]; ok {
			return v, len(v) > 0
		}
	}
	if v, ok := m.over[k]; ok {
		return v, len(v) > 0
	}
	if v, ok := m.base[k]; ok {
		return v, len(v) > 0
	}
	return nil, false
}

// verifC08_localdb: any history of Begin / Set (value or empty) / Commit / Rollback; after
// every step point reads, prefix listing and prefix count agree with the model.
func verifC08_localdb() {
	base, _ := NewGoMemDB("verif", "", 0)
	nkeys := 2
	keys := make([][]byte, nkeys)
	keys[0] = append([]byte("p"), verifBytes("key", 1+verifChoose("key.len", verifParam("keylen", 1)))...)
	keys[1] = []byte("pm")
	if verifParam("symkeys", 1) == 2 {
		keys[1] = append([]byte("p"), verifBytes("key", 1)...)
	}
	verifAssume(!bytes.Equal(keys[0], keys[1]))
	m := &verifC08Model{tx: map[int][]byte{}, over: map[int][]byte{}, base: map[int][]byte{}}
	for i := 0; i < nkeys; i++ {
		if verifChoose("inbase", 2) == 1 {
			v := []byte{byte('A' + i)}
			base.Set(keys[i], v)
			m.base[i] = v
		}
	}
	l := NewLocalDB(base, false).(*LocalDB)
	nops := verifParam("ops", 4)
	for step := 0; step < nops; step++ {
		switch verifChoose("op", 4) + 1 {
		case 1:
			l.Begin()
			m.intx = true
			m.tx = map[int][]byte{}
		case 2:
			k := verifChoose("which", nkeys)
			v := []byte{byte('a' + step)}
			if verifChoose("empty", 2) == 1 {
				v = []byte{}
			}
			l.Set(keys[k], v)
			if m.intx {
				m.tx[k] = v
			} else {
				m.over[k] = v
			}
		case 3:
			l.Commit()
			if m.intx {
				for k, v := range m.tx {
					m.over[k] = v
				}
			}
			m.intx = false
			m.tx = map[int][]byte{}
		case 4:
			l.Rollback()
			m.intx = false
			m.tx = map[int][]byte{}
		}
		// point reads
		live := 0
		for k := 0; k < nkeys; k++ {
			want, ok := m.get(k)
			got, err := l.Get(keys[k])
			if ok {
				live++
				verifAssert("C08/get-visible", err == nil && bytes.Equal(got, want))
			} else {
				verifAssert("C08/get-hidden", err != nil)
			}
		}
		// list and count agree with point reads
		res, _ := l.List([]byte("p"), nil, 0, ListASC|ListKeyOnly)
		verifAssert("C08/list-length", len(res) == live)
		for _, r := range res {
			found := false
			for k := 0; k < nkeys; k++ {
				if _, ok := m.get(k); ok && bytes.Equal(r, keys[k]) {
					found = true
				}
			}
			verifAssert("C08/list-only-visible", found)
		}
		verifAssert("C08/count", l.PrefixCount([]byte("p")) == int64(live))
	}
}
