package PKGNAME

import (
	"bytes"

	"github.com/33cn/chain33/types"
)

type verifC06KV struct {
	k, v []byte
}

// sorted-map model
type verifC06Model struct {
	items []verifC06KV // ascending by key, unique
}

func (m *verifC06Model) find(k []byte) int {
	for i, it := range m.items {
		if bytes.Equal(it.k, k) {
			return i
		}
	}
	return -1
}

func (m *verifC06Model) set(k, v []byte) {
	if i := m.find(k); i >= 0 {
		m.items[i].v = v
		return
	}
	pos := len(m.items)
	for i, it := range m.items {
		if bytes.Compare(k, it.k) < 0 {
			pos = i
			break
		}
	}
	m.items = append(m.items, verifC06KV{})
	copy(m.items[pos+1:], m.items[pos:])
	m.items[pos] = verifC06KV{k, v}
}

func (m *verifC06Model) del(k []byte) {
	if i := m.find(k); i >= 0 {
		m.items = append(m.items[:i:i], m.items[i+1:]...)
	}
}

func verifC06Key(name string) []byte {
	return verifBytes(name, 1+verifChoose(name+".len", verifParam("keylen", 2)))
}

// verifC06_memdb: point writes, deletes, an atomic batch and one iterator query on
// GoMemDB (chain33 wrapper + goLevelDBIt over the real goleveldb memdb) against the model.
func verifC06_memdb() {
	db, _ := NewGoMemDB("verif", "", 0)
	m := &verifC06Model{}
	nkeys := verifParam("keys", 3)
	pool := make([][]byte, nkeys)
	for i := range pool {
		pool[i] = verifC06Key("key")
	}
	nops := verifParam("ops", 3)
	for step := 0; step < nops; step++ {
		k := pool[verifChoose("which", nkeys)]
		v := []byte{byte('a' + step)}
		switch verifChoose("op", 3) {
		case 0:
			db.Set(k, v)
			m.set(k, v)
		case 1:
			db.Delete(k)
			m.del(k)
		case 2: // batch: set k, delete another key, applied in order
			k2 := pool[verifChoose("which2", nkeys)]
			b := db.NewBatch(false)
			b.Set(k, v)
			b.Delete(k2)
			b.Write() // memdb reports ErrNotFound when a batch deletes an absent key; the batch is applied regardless
			m.set(k, v)
			m.del(k2)
		}
	}
	// read after write
	for _, k := range pool {
		got, err := db.Get(k)
		if i := m.find(k); i >= 0 {
			verifAssert("C06/get-present", err == nil && bytes.Equal(got, m.items[i].v))
		} else {
			verifAssert("C06/get-absent", err == ErrNotFoundInDb)
		}
	}
	// iterator query
	ql := verifParam("qlen", 2)
	start := verifBytes("start", verifChoose("start.len", ql+1))
	mode := verifChoose("range-mode", 3) // 0 prefix (end=nil), 1 explicit end, 2 open end
	reverse := verifChoose("reverse", 2) == 1
	var end []byte
	inRange := func(k []byte) bool { return false }
	switch mode {
	case 0:
		end = nil
		inRange = func(k []byte) bool { return bytes.HasPrefix(k, start) }
	case 1:
		end = verifBytes("end", 1+verifChoose("end.len", ql))
		inRange = func(k []byte) bool { return bytes.Compare(k, start) >= 0 && bytes.Compare(k, end) < 0 }
	case 2:
		end = types.EmptyValue
		inRange = func(k []byte) bool { return bytes.Compare(k, start) >= 0 }
	}
	var want []verifC06KV
	for _, it := range m.items {
		if inRange(it.k) {
			want = append(want, it)
		}
	}
	if reverse {
		for i, j := 0, len(want)-1; i < j; i, j = i+1, j-1 {
			want[i], want[j] = want[j], want[i]
		}
	}
	it := db.Iterator(start, end, reverse)
	defer it.Close()
	useSeek := verifChoose("seek", 2) == 1
	pos := 0
	if useSeek {
		target := verifBytes("target", 1+verifChoose("target.len", ql))
		// expected position: first element at/after the target in iteration direction
		pos = len(want)
		for i, w := range want {
			c := bytes.Compare(w.k, target)
			if (!reverse && c >= 0) || (reverse && c <= 0) {
				pos = i
				break
			}
		}
		it.Seek(target)
	} else {
		it.Rewind()
	}
	for n := 0; n <= len(want)-pos; n++ {
		if pos+n < len(want) {
			verifAssert("C06/iter-valid", it.Valid())
			verifAssert("C06/iter-key", bytes.Equal(it.Key(), want[pos+n].k))
			verifAssert("C06/iter-value", bytes.Equal(it.Value(), want[pos+n].v))
			it.Next()
		} else {
			verifAssert("C06/iter-exhausted", !it.Valid())
		}
	}
}

// verifC06_bytesprefix: [prefix, bytesPrefix(prefix)) is exactly the set of keys having the prefix.
func verifC06_bytesprefix() {
	p := verifBytes("prefix", 1+verifChoose("prefix.len", 3))
	k := verifBytes("key", verifChoose("key.len", 5))
	lim := bytesPrefix(p)
	in := bytes.Compare(k, p) >= 0 && (lim == nil || bytes.Compare(k, lim) < 0)
	verifAssert("C06/bytesprefix-is-prefix-range", in == bytes.HasPrefix(k, p))
}
