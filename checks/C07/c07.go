package PKGNAME

import "bytes"

type verifC07Ent struct {
	k    []byte
	live bool // non-empty value
	v    []byte
}

// live in-prefix entries in ascending key order, top layer first for duplicates
func verifC07Expect(layers [][]verifC07Ent, prefix []byte, asc bool) [][]byte {
	var all []verifC07Ent
	for _, layer := range layers { // layers[0] is the top layer
		for _, e := range layer {
			dup := false
			for _, x := range all {
				if bytes.Equal(x.k, e.k) {
					dup = true
				}
			}
			if !dup {
				all = append(all, e)
			}
		}
	}
	// insertion sort by key
	for i := 1; i < len(all); i++ {
		for j := i; j > 0 && bytes.Compare(all[j].k, all[j-1].k) < 0; j-- {
			all[j], all[j-1] = all[j-1], all[j]
		}
	}
	var keys [][]byte
	for _, e := range all {
		if e.live && bytes.HasPrefix(e.k, prefix) {
			keys = append(keys, e.k)
		}
	}
	if !asc {
		for i, j := 0, len(keys)-1; i < j; i, j = i+1, j-1 {
			keys[i], keys[j] = keys[j], keys[i]
		}
	}
	return keys
}

type verifC07Lister interface {
	List(prefix, key []byte, count, direction int32) [][]byte
	PrefixCount(prefix []byte) int64
}

func verifC07Pages(l verifC07Lister, prefix []byte, want [][]byte, asc bool) {
	page := int32(1 + verifChoose("pagesize", verifParam("maxpage", 3)))
	dir := ListDESC
	if asc {
		dir = ListASC
	}
	var got [][]byte
	var last []byte
	for n := 0; n <= len(want)+1; n++ {
		res := l.List(prefix, last, page, dir|ListKeyOnly)
		if len(res) == 0 {
			break
		}
		verifAssert("C07/page-size-respected", len(res) <= int(page))
		got = append(got, res...)
		last = res[len(res)-1]
	}
	verifAssert("C07/every-live-entry-once", len(got) == len(want))
	for i := range got {
		if i < len(want) {
			verifAssert("C07/in-order-in-prefix", bytes.Equal(got[i], want[i]))
		}
	}
	verifAssert("C07/prefix-count", l.PrefixCount(prefix) == int64(len(want)))
}

func verifC07Entries(name string, n int) []verifC07Ent {
	var es []verifC07Ent
	for i := 0; i < n; i++ {
		k := verifBytes(name+".key", 1+verifChoose(name+".key.len", verifParam("keylen", 2)))
		live := verifChoose(name+".live", 2) == 1
		dup := false
		for _, e := range es {
			if bytes.Equal(e.k, k) {
				dup = true
			}
		}
		verifAssume(!dup)
		v := []byte{}
		if live {
			v = []byte{byte('a' + i)}
		}
		es = append(es, verifC07Ent{k, live, v})
	}
	return es
}

// verifC07_single: paging over one database.
func verifC07_single() {
	db, _ := NewGoMemDB("verif", "", 0)
	es := verifC07Entries("e", verifParam("entries", 3))
	for _, e := range es {
		db.Set(e.k, e.v)
	}
	prefix := verifBytes("prefix", 1+verifChoose("prefix.len", verifParam("prefixlen", 2)))
	asc := verifChoose("asc", 2) == 1
	want := verifC07Expect([][]verifC07Ent{es}, prefix, asc)
	verifC07Pages(NewListHelper(db), prefix, want, asc)
}

type verifC07Merged struct{ l *LocalDB }

func (m verifC07Merged) List(prefix, key []byte, count, direction int32) [][]byte {
	r, _ := m.l.List(prefix, key, count, direction)
	return r
}
func (m verifC07Merged) PrefixCount(prefix []byte) int64 { return m.l.PrefixCount(prefix) }

// verifC07_merged: paging over the merged view of the layered local database
// (committed overlay above the base database; the same key may exist in both).
func verifC07_merged() {
	base, _ := NewGoMemDB("verif", "", 0)
	bs := verifC07Entries("base", verifParam("entries", 2))
	for _, e := range bs {
		base.Set(e.k, e.v)
	}
	l := NewLocalDB(base, false).(*LocalDB)
	os := verifC07Entries("over", verifParam("entries", 2))
	for _, e := range os {
		l.Set(e.k, e.v)
	}
	prefix := verifBytes("prefix", 1+verifChoose("prefix.len", verifParam("prefixlen", 2)))
	asc := verifChoose("asc", 2) == 1
	want := verifC07Expect([][]verifC07Ent{os, bs}, prefix, asc)
	verifC07Pages(verifC07Merged{l}, prefix, want, asc)
}
