package PKGNAME

import "math/big"

// verifC20Canon is the reference normalisation of a compact value, written over machine
// integers from the format description (sign bit 23, 23-bit mantissa, base-256 exponent).
// ok=false when the canonical exponent does not fit the 8-bit field (outside the claim).
func verifC20Canon(c uint32) (canon uint32, ok bool) {
	mant := c & 0x007fffff
	neg := c&0x00800000 != 0
	e := c >> 24
	var l uint32 // byte length of |value|
	var m uint32 // top three bytes of |value| (left aligned when shorter)
	if e <= 3 {
		v := mant >> (8 * (3 - e))
		if v == 0 {
			return 0, true
		}
		switch {
		case v < 0x100:
			l = 1
		case v < 0x10000:
			l = 2
		default:
			l = 3
		}
		m = v << (8 * (3 - l))
	} else {
		if mant == 0 {
			return 0, true
		}
		var lm uint32
		switch {
		case mant < 0x100:
			lm = 1
		case mant < 0x10000:
			lm = 2
		default:
			lm = 3
		}
		l = lm + e - 3
		m = mant << (8 * (3 - lm))
	}
	if m&0x00800000 != 0 {
		m >>= 8
		l++
	}
	if l > 255 {
		return 0, false
	}
	canon = l<<24 | m
	if neg {
		canon |= 0x00800000
	}
	return canon, true
}

// verifC20_compact_roundtrip: for every compact value with exponent byte e (case split) and
// symbolic sign+mantissa: BigToCompact(CompactToBig(c)) == canon(c); the canonical form
// decodes to the same integer and is a fixed point.
func verifC20_compact_roundtrip() {
	lo := verifParam("e_lo", 0)
	hi := verifParam("e_hi", 40)
	e := lo + verifChoose("exponent", hi-lo+1)
	if verifParam("e_top", 0) == 1 && verifChoose("top", 2) == 1 {
		e = 250 + verifChoose("exponent_top", 6)
	}
	low := verifU32("sign_mantissa")
	c := uint32(e)<<24 | low&0x00ffffff
	n := CompactToBig(c)
	got := BigToCompact(n)
	want, ok := verifC20Canon(c)
	verifObserve("rt", c, got, want, ok)
	if !ok {
		verifReach("canon-exponent-overflow")
		return
	}
	verifAssert("C20/recode-is-canonical", got == want)
	n2 := CompactToBig(got)
	verifAssert("C20/canonical-decodes-to-same-integer", n2.Cmp(n) == 0)
	verifAssert("C20/canonical-is-fixed-point", BigToCompact(n2) == got)
}

// verifC20_big_roundtrip: for every non-negative integer of byte length L (case split):
// decode(encode(n)) <= n, differs from n only below the mantissa, exact below 2^23.
func verifC20_big_roundtrip() {
	maxL := verifParam("max_len", 12)
	l := verifLen("bytelen", maxL)
	b := verifBytes("n", l)
	if l > 0 {
		verifAssume(b[0] != 0)
	}
	n := new(big.Int).SetBytes(b)
	c := BigToCompact(n)
	v := CompactToBig(c)
	verifObserve("big", l, c)
	verifAssert("C20/decode-not-above", v.Cmp(n) <= 0)
	diff := new(big.Int).Sub(n, v)
	slack := 0
	if l > 2 {
		slack = l - 2
	}
	bound := new(big.Int).Lsh(big.NewInt(1), uint(8*slack))
	verifAssert("C20/loss-below-mantissa", diff.Cmp(bound) < 0)
	if n.Cmp(big.NewInt(1<<23)) < 0 {
		verifAssert("C20/exact-below-2^23", diff.Sign() == 0)
	}
	// the encoding keeps at least 15 significant bits: v*2^16 > n*(2^16-2^1) is implied by the
	// bound above for l>=3; sign bit is never set for a non-negative integer
	verifAssert("C20/nonnegative-has-no-sign-bit", c&0x00800000 == 0)
}

// verifC20_work_antitone: t1 <= t2 (both positive targets below 2^256) implies
// CalcWork(t1) >= CalcWork(t2); non-positive targets have zero work.
func verifC20_work_antitone() {
	maxE := verifParam("max_e", 34)
	e1 := verifChoose("e1", maxE+1)
	e2 := verifChoose("e2", maxE+1)
	c1 := uint32(e1)<<24 | verifU32("m1")&0x00ffffff
	c2 := uint32(e2)<<24 | verifU32("m2")&0x00ffffff
	t1 := CompactToBig(c1)
	t2 := CompactToBig(c2)
	w1 := CalcWork(c1)
	w2 := CalcWork(c2)
	verifObserve("work", c1, c2, w1.Cmp(w2))
	if t1.Sign() <= 0 {
		verifAssert("C20/nonpositive-target-zero-work", w1.Sign() == 0)
		return
	}
	if t2.Sign() <= 0 {
		return
	}
	lim := new(big.Int).Lsh(big.NewInt(1), 256)
	verifAssume(t1.Cmp(lim) < 0 && t2.Cmp(lim) < 0)
	if t1.Cmp(t2) <= 0 {
		verifAssert("C20/work-antitone", w1.Cmp(w2) >= 0)
	}
	verifAssert("C20/work-positive", w1.Sign() > 0)
}
