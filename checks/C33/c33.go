package PKGNAME

import (
	"github.com/33cn/chain33/system/p2p/dht/protocol"
	p2pty "github.com/33cn/chain33/system/p2p/dht/types"
)

// verifC33_versionlimit: the version string announced by a peer (arbitrary bytes) never
// crashes the version gate, whatever limit is configured.
func verifC33_versionlimit() {
	limits := []string{"", "6", "6.8", "6.8.8"}
	lim := limits[verifChoose("limit", len(limits))]
	p := &Protocol{P2PEnv: &protocol.P2PEnv{SubConfig: &p2pty.P2PSubConfig{VerLimit: lim}}}
	n := verifChoose("version.len", verifParam("maxlen", 7)+1)
	raw := verifBytes("version", n)
	// keep the alphabet small: the parser only distinguishes '@', '.', digits and the rest
	for _, b := range raw {
		verifAssume(b == '@' || b == '.' || b == 'x' || (b >= '0' && b <= '9'))
	}
	version := string(raw)
	ok := p.checkVersionLimit(version)
	verifReach("returned")
	if lim == "" {
		verifAssert("C33/no-limit-admits-all", ok)
	}
	verifObserve("gate", lim, ok)
}
