package PKGNAME

import (
	"bytes"

	"github.com/33cn/chain33/types"
)

type verifC09Write struct {
	key   int // 0 or 1
	value []byte
}

// applies the KV list the way the block store does: nil value = delete
func verifC09Apply(db DB, kvs []*types.KeyValue) {
	for _, kv := range kvs {
		if kv.Value == nil {
			db.Delete(kv.Key)
		} else {
			db.Set(kv.Key, kv.Value)
		}
	}
}

// expected result of reading key k at version v: value of the latest write at a version <= v
func verifC09Expect(hist [][]verifC09Write, k int, v int) ([]byte, bool) {
	for ver := v; ver >= 0; ver-- {
		if ver >= len(hist) {
			continue
		}
		for _, w := range hist[ver] {
			if w.key == k {
				return w.value, true
			}
		}
	}
	return nil, false
}

func verifC09Keys() [][]byte {
	maxlen := verifParam("keylen", 3)
	k1 := verifBytes("k1", 1+verifChoose("k1.len", maxlen))
	k2 := verifBytes("k2", 1+verifChoose("k2.len", maxlen))
	verifAssume(!bytes.Equal(k1, k2))
	return [][]byte{k1, k2}
}

func verifC09Hash(v int) []byte { return []byte{'h', byte('0' + v)} }

// builds nver versions; version v writes a symbolic subset of the two keys
func verifC09Build(db DB, m *MVCCHelper, keys [][]byte, nver int) [][]verifC09Write {
	var hist [][]verifC09Write
	for v := 0; v < nver; v++ {
		var ws []verifC09Write
		var kvs []*types.KeyValue
		sel := verifChoose("writes", 4) // bit0: key 0, bit1: key 1
		for k := 0; k < 2; k++ {
			if sel&(1<<uint(k)) != 0 {
				val := []byte{'v', byte('0' + v), byte('a' + k)}
				ws = append(ws, verifC09Write{k, val})
				kvs = append(kvs, &types.KeyValue{Key: keys[k], Value: val})
			}
		}
		var prev []byte
		if v > 0 {
			prev = verifC09Hash(v - 1)
		}
		kvlist, err := m.AddMVCC(kvs, verifC09Hash(v), prev, int64(v))
		verifAssert("C09/addmvcc-ok", err == nil)
		verifC09Apply(db, kvlist)
		hist = append(hist, ws)
	}
	return hist
}

func verifC09CheckReads(label string, m *MVCCHelper, keys [][]byte, hist [][]verifC09Write, upto int) {
	for k := 0; k < 2; k++ {
		for v := 0; v <= upto; v++ {
			want, found := verifC09Expect(hist, k, v)
			got, err := m.GetV(keys[k], int64(v))
			if found {
				verifAssert(label+"-found", err == nil && bytes.Equal(got, want))
			} else {
				verifAssert(label+"-notfound", err != nil)
			}
		}
	}
}

// verifC09_getv: GetV(k, v) returns the latest write to k at a version <= v, never a
// value written under another key.
func verifC09_getv() {
	db, _ := NewGoMemDB("verif", "", 0)
	m := NewMVCC(db)
	keys := verifC09Keys()
	nver := verifParam("versions", 2)
	hist := verifC09Build(db, m, keys, nver)
	verifC09CheckReads("C09/getv", m, keys, hist, nver-1)
	mv, err := m.GetMaxVersion()
	verifAssert("C09/maxversion", err == nil && mv == int64(nver-1))
}

// verifC09_delmvcc: removing the top version restores every read.
func verifC09_delmvcc() {
	db, _ := NewGoMemDB("verif", "", 0)
	m := NewMVCC(db)
	keys := verifC09Keys()
	nver := verifParam("versions", 2)
	hist := verifC09Build(db, m, keys, nver)
	top := nver - 1
	kvs, err := m.DelMVCC(verifC09Hash(top), int64(top), true)
	verifAssert("C09/delmvcc-ok", err == nil)
	verifC09Apply(db, kvs)
	verifC09CheckReads("C09/after-del", m, keys, hist[:top], top)
	if top > 0 {
		mv, err := m.GetMaxVersion()
		verifAssert("C09/maxversion-after-del", err == nil && mv == int64(top-1))
	}
}

// verifC09_trash: collecting versions <= v keeps each key's newest version and every
// version above v.
func verifC09_trash() {
	db, _ := NewGoMemDB("verif", "", 0)
	m := NewMVCC(db)
	keys := verifC09Keys()
	nver := verifParam("versions", 2)
	hist := verifC09Build(db, m, keys, nver)
	tv := verifChoose("trash-version", nver)
	err := m.Trash(int64(tv))
	verifAssert("C09/trash-ok", err == nil)
	top := nver - 1
	for k := 0; k < 2; k++ {
		// reads at the top version are unchanged (a key's newest version is never collected)
		want, found := verifC09Expect(hist, k, top)
		got, err := m.GetV(keys[k], int64(top))
		if found {
			verifAssert("C09/trash-keeps-newest", err == nil && bytes.Equal(got, want))
		} else {
			verifAssert("C09/trash-notfound-stays", err != nil)
		}
		// a version above tv that wrote k is still readable at that version
		for v := tv + 1; v <= top; v++ {
			for _, w := range hist[v] {
				if w.key == k {
					g2, e2 := m.GetV(keys[k], int64(v))
					verifAssert("C09/trash-keeps-newer", e2 == nil && bytes.Equal(g2, w.value))
				}
			}
		}
	}
}
