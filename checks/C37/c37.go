package PKGNAME

import (
	"bytes"
	"crypto/aes"
	"crypto/cipher"
	"errors"
	"io"

	"github.com/33cn/chain33/common"
	dbm "github.com/33cn/chain33/common/db"
	"github.com/33cn/chain33/types"
	wcom "github.com/33cn/chain33/wallet/common"
)

// ---- models of the standard library's AES modes over an ideal keyed permutation ----
// (engine only: check.json maps aes.NewCipher, cipher.NewGCM, cipher.NewCBCEncrypter,
// cipher.NewCBCDecrypter and io.ReadFull to these; native replays use the real library)

type verifC37Block struct{ key []byte }

func (b *verifC37Block) BlockSize() int { return 16 }
func (b *verifC37Block) Encrypt(dst, src []byte) {
	copy(dst, verifPermute(b.key, src[:16], false))
}
func (b *verifC37Block) Decrypt(dst, src []byte) {
	copy(dst, verifPermute(b.key, src[:16], true))
}

func verifC37NewCipher(key []byte) (cipher.Block, error) {
	switch len(key) {
	case 16, 24, 32:
		return &verifC37Block{key: append([]byte(nil), key...)}, nil
	}
	return nil, errors.New("crypto/aes: invalid key size")
}

type verifC37CBC struct {
	b   cipher.Block
	iv  []byte
	dec bool
}

func (c *verifC37CBC) BlockSize() int { return 16 }
func (c *verifC37CBC) CryptBlocks(dst, src []byte) {
	if len(src)%16 != 0 {
		panic("crypto/cipher: input not full blocks")
	}
	if len(dst) < len(src) {
		panic("crypto/cipher: output smaller than input")
	}
	prev := c.iv
	for off := 0; off < len(src); off += 16 {
		in := src[off : off+16]
		out := make([]byte, 16)
		if c.dec {
			c.b.Decrypt(out, in)
			for k := range out {
				out[k] ^= prev[k]
			}
			prev = append([]byte(nil), in...)
		} else {
			x := make([]byte, 16)
			for k := range x {
				x[k] = in[k] ^ prev[k]
			}
			c.b.Encrypt(out, x)
			prev = out
		}
		copy(dst[off:off+16], out)
	}
	c.iv = prev
}

func verifC37NewCBCEncrypter(b cipher.Block, iv []byte) cipher.BlockMode {
	if len(iv) != 16 {
		panic("cipher.NewCBCEncrypter: IV length must equal block size")
	}
	return &verifC37CBC{b: b, iv: append([]byte(nil), iv...)}
}
func verifC37NewCBCDecrypter(b cipher.Block, iv []byte) cipher.BlockMode {
	if len(iv) != 16 {
		panic("cipher.NewCBCDecrypter: IV length must equal block size")
	}
	return &verifC37CBC{b: b, iv: append([]byte(nil), iv...), dec: true}
}

// AEAD: counter-mode keystream from the permutation, tag = PRF(key, nonce, ciphertext)
type verifC37GCM struct{ key []byte }

func (g *verifC37GCM) NonceSize() int { return 12 }
func (g *verifC37GCM) Overhead() int  { return 16 }
func (g *verifC37GCM) stream(nonce []byte, n int) []byte {
	var ks []byte
	for ctr := 0; len(ks) < n; ctr++ {
		blk := append(append([]byte(nil), nonce...), 0, 0, byte(ctr>>8), byte(ctr+2))
		ks = append(ks, verifPermute(g.key, blk, false)...)
	}
	return ks[:n]
}
func (g *verifC37GCM) tag(nonce, ct []byte) []byte {
	in := append(append(append([]byte(nil), g.key...), nonce...), ct...)
	return verifPRF("gcmtag", in, 16)
}
func (g *verifC37GCM) Seal(dst, nonce, plaintext, additionalData []byte) []byte {
	if len(nonce) != 12 {
		panic("crypto/cipher: incorrect nonce length given to GCM")
	}
	ks := g.stream(nonce, len(plaintext))
	ct := make([]byte, len(plaintext))
	for k := range ct {
		ct[k] = plaintext[k] ^ ks[k]
	}
	return append(append(dst, ct...), g.tag(nonce, ct)...)
}
func (g *verifC37GCM) Open(dst, nonce, ciphertext, additionalData []byte) ([]byte, error) {
	if len(nonce) != 12 {
		panic("crypto/cipher: incorrect nonce length given to GCM")
	}
	if len(ciphertext) < 16 {
		return nil, errors.New("cipher: message authentication failed")
	}
	ct, tag := ciphertext[:len(ciphertext)-16], ciphertext[len(ciphertext)-16:]
	if !bytes.Equal(tag, g.tag(nonce, ct)) {
		// documented: "even if the function fails, the contents of dst, up to its capacity,
		// may be overwritten" - the spare capacity of dst gets arbitrary bytes
		spare := dst[len(dst):cap(dst)]
		if len(spare) > len(ct) {
			spare = spare[:len(ct)]
		}
		copy(spare, verifInternalBytes("open-failure-clobber", len(spare)))
		return nil, errors.New("cipher: message authentication failed")
	}
	ks := g.stream(nonce, len(ct))
	pt := make([]byte, len(ct))
	for k := range pt {
		pt[k] = ct[k] ^ ks[k]
	}
	return append(dst, pt...), nil
}

func verifC37NewGCM(b cipher.Block) (cipher.AEAD, error) {
	return &verifC37GCM{key: b.(*verifC37Block).key}, nil
}

// io.ReadFull(rand.Reader, buf): arbitrary bytes
func verifC37ReadFull(r io.Reader, buf []byte) (int, error) {
	copy(buf, verifInternalBytes("random", len(buf)))
	return len(buf), nil
}

func verifC37Password() []byte {
	n := []int{1, 8, 31, 32, 33, 40}[verifChoose("password.len", 6)]
	return verifBytes("password", n)
}

func verifC37Key(pw []byte) []byte {
	key := make([]byte, 32)
	if len(pw) > 32 {
		copy(key, pw[:32])
	} else {
		copy(key, pw)
	}
	return key
}

// verifC37_privkey: CBC private-key encryption round-trips for every password, key and IV,
// and legacy blobs (IV = key prefix, no IV stored) still decrypt.
func verifC37_privkey() {
	pw := verifC37Password()
	klen := []int{32, 64}[verifChoose("privkey.len", 2)]
	priv := verifBytes("privkey", klen)
	enc := wcom.CBCEncrypterPrivkey(pw, priv)
	verifAssert("C37/privkey-blob-length", len(enc) == klen+16)
	dec := wcom.CBCDecrypterPrivkey(pw, enc)
	verifAssert("C37/privkey-roundtrip", bytes.Equal(dec, priv))
	// legacy format produced by the old encrypter
	key := verifC37Key(pw)
	blk, _ := aes.NewCipher(key) // engine: the ideal permutation; natively the real cipher
	legacy := make([]byte, klen)
	cipher.NewCBCEncrypter(blk, key[:16]).CryptBlocks(legacy, priv)
	verifAssert("C37/privkey-legacy-decrypts", bytes.Equal(wcom.CBCDecrypterPrivkey(pw, legacy), priv))
	verifObserve("len", len(enc))
}

// verifC37_seed: GCM seed encryption round-trips; legacy blobs (nonce = key prefix) decrypt;
// a wrong password is rejected or at least never returns the seed silently changed.
func verifC37_seed() {
	pw := verifC37Password()
	slen := []int{1, 12, 13, 40}[verifChoose("seed.len", 4)]
	seed := verifBytes("seed", slen)
	enc, err := AesgcmEncrypter(pw, seed)
	verifAssert("C37/seed-encrypts", err == nil && len(enc) == slen+12+16)
	dec, err := AesgcmDecrypter(pw, enc)
	verifAssert("C37/seed-roundtrip", err == nil && bytes.Equal(dec, seed))
	key := verifC37Key(pw)
	blk, _ := aes.NewCipher(key)
	g, _ := cipher.NewGCM(blk)
	legacy := g.Seal(nil, key[:12], seed, nil)
	dec2, err := AesgcmDecrypter(pw, legacy)
	verifAssert("C37/seed-legacy-decrypts", err == nil && bytes.Equal(dec2, seed))
	verifObserve("len", len(enc))
}

// ---- password change ----

// password-hash bookkeeping of the store (json + random salt) is replaced by a plain record
var verifC37PwRecord string

func verifC37SetPasswordHash(store *wcom.Store, password string, batch dbm.Batch) error {
	verifC37PwRecord = password
	return nil
}
func verifC37VerifyPasswordHash(store *wcom.Store, password string) bool {
	return verifC37PwRecord == password
}
func verifC37SetEncryptionFlag(store *wcom.Store, batch dbm.Batch) error { return nil }

type verifC37Acc struct {
	addr string
	priv []byte
}

func verifC37Decrypts(w *Wallet, password string, seed string, accs []verifC37Acc, label string) {
	got, err := GetSeed(w.walletStore.GetDB(), password)
	verifAssert("C37/"+label+"-seed-decrypts-under-current-password", err == nil && got == seed)
	for _, a := range accs {
		st, err := w.walletStore.GetAccountByAddr(a.addr)
		verifAssert("C37/"+label+"-account-readable", err == nil && st != nil)
		if st == nil {
			continue
		}
		blob, err := common.FromHex(st.GetPrivkey())
		verifAssert("C37/"+label+"-account-hex", err == nil)
		verifAssert("C37/"+label+"-privkey-decrypts-under-current-password", bytes.Equal(wcom.CBCDecrypterPrivkey([]byte(password), blob), a.priv))
	}
}

// verifC37_setpasswd: a wallet with a seed and n accounts encrypted under P0, in memory either
// unlocked-with-password or freshly restarted (password not in memory); one or two password
// changes with the right or a wrong old password. Afterwards every key and the seed decrypt
// under the wallet's current password to the original values.
func verifC37_setpasswd() {
	const p0, p1, p2, bad = "oldpass123", "newpass456", "thirdpw789", "wrongpw000"
	db, _ := dbm.NewGoMemDB("verifc37", "", 0)
	w := &Wallet{walletStore: newStore(db), EncryptFlag: 1}
	seed := string(verifBytes("seed", 12))
	batch := db.NewBatch(true)
	// engine: the plain record above; natively the real salted hash in the store
	verifAssert("C37/setup-pwhash", w.walletStore.SetPasswordHash(p0, batch) == nil && w.walletStore.SetEncryptionFlag(batch) == nil)
	ok, err := SaveSeedInBatch(db, seed, p0, batch)
	verifAssert("C37/setup-seed", ok && err == nil && batch.Write() == nil)
	n := verifParam("accounts", 2)
	var accs []verifC37Acc
	for k := 0; k < n; k++ {
		a := verifC37Acc{addr: "addr" + string(rune('A'+k)), priv: verifBytes("privkey", 32)}
		legacy := verifChoose("stored-format-legacy", 2) == 1
		var blob []byte
		if legacy {
			key := verifC37Key([]byte(p0))
			blk, _ := aes.NewCipher(key)
			blob = make([]byte, 32)
			cipher.NewCBCEncrypter(blk, key[:16]).CryptBlocks(blob, a.priv)
		} else {
			blob = wcom.CBCEncrypterPrivkey([]byte(p0), a.priv)
		}
		st := &types.WalletAccountStore{Privkey: common.ToHex(blob), Label: "label" + string(rune('A'+k)), Addr: a.addr, TimeStamp: "00000000000000000" + string(rune('1'+k))}
		verifAssert("C37/setup-account", w.walletStore.SetWalletAccount(true, a.addr, st) == nil)
		accs = append(accs, a)
	}
	if verifChoose("password-in-memory", 2) == 1 {
		w.Password = p0
	}
	current := p0
	steps := verifParam("changes", 2)
	for s := 0; s < steps; s++ {
		old := []string{current, bad}[verifChoose("old-password", 2)]
		next := []string{p1, p2}[s%2]
		err := w.ProcWalletSetPasswd(&types.ReqWalletSetPasswd{OldPass: old, NewPass: next})
		if old == current {
			verifAssert("C37/change-with-right-password-succeeds", err == nil)
		} else {
			verifAssert("C37/change-with-wrong-password-fails", err != nil)
		}
		if err == nil {
			current = next
		}
		verifC37Decrypts(w, current, seed, accs, "after-change")
	}
	verifObserve("current", current)
}
