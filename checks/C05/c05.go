package PKGNAME

import "bytes"

// verifC05_codec: the version-index key codec round-trips key, height and leaf hash, for the
// current and the second-level ("old") prefix, and the conversion between them.
func verifC05_codec() {
	key := verifBytes("key", verifChoose("key.len", verifParam("keylen", 4)+1))
	heights := []int64{0, 1, 7, 1234567, 9999999999}
	h := heights[verifChoose("height", len(heights))]
	hashLen := 32
	hash := verifWide("hash", hashLen)
	hk := genLeafCountKey(key, hash, h, hashLen)
	k2, h2, hash2, err := getKeyHeightFromLeafCountKey(hk)
	verifAssert("C05/codec-parses", err == nil)
	verifAssert("C05/codec-key", bytes.Equal(k2, key))
	verifAssert("C05/codec-height", int64(h2) == h)
	verifAssert("C05/codec-hash", bytes.Equal(hash2, hash))
	ok := genOldLeafCountKey(key, hash, h, hashLen)
	k3, h3, hash3, err3 := getKeyHeightFromOldLeafCountKey(ok)
	verifAssert("C05/old-codec-roundtrip", err3 == nil && bytes.Equal(k3, key) && int64(h3) == h && bytes.Equal(hash3, hash))
	verifAssert("C05/old-key-from-key", bytes.Equal(genOldLeafCountKeyFromKey(hk), ok))
}

// verifC05_gethash: the leaf-hash lookup used when a height is re-committed finds exactly
// the keys that are in the tree, at the same index as Get.
func verifC05_gethash() {
	t := NewTree(nil, true, nil)
	var keys [][]byte
	n := verifParam("inserts", 4)
	for i := 0; i < n; i++ {
		k := verifBytes("key", 1)
		t.Set(k, []byte{byte('a' + i)})
		keys = append(keys, k)
	}
	t.Hash()
	probe := verifBytes("probe", 1)
	i1, _, ok1 := t.Get(probe)
	i2, hash, ok2 := t.GetHash(probe)
	verifAssert("C05/gethash-exists-iff-get-exists", ok1 == ok2)
	verifAssert("C05/gethash-same-index", i1 == i2)
	if ok2 {
		verifAssert("C05/gethash-returns-a-hash", len(hash) > 0)
	}
	for _, k := range keys {
		_, _, ok := t.GetHash(k)
		verifAssert("C05/gethash-finds-every-present-key", ok)
	}
}
