package PKGNAME

import (
	"github.com/33cn/chain33/types"
)

// verifItem is the harness's Scorer: symbolic score, tie-break rank and byte size.
type verifItem struct {
	id    int
	score int64
	rank  int64
	size  int64
	hash  string
}

func (it *verifItem) GetScore() int64  { return it.score }
func (it *verifItem) Hash() []byte     { return []byte(it.hash) }
func (it *verifItem) ByteSize() int64  { return it.size }
func (it *verifItem) Compare(o Scorer) int {
	x := o.(*verifItem)
	if it.rank > x.rank {
		return Big
	}
	if it.rank == x.rank {
		return Equal
	}
	return Small
}

// reference model: items ordered by score descending, ties in arrival order
type verifQModel struct {
	items []*verifItem
	bytes int64
	max   int
}

func (m *verifQModel) find(id int) int {
	for i, it := range m.items {
		if it.id == id {
			return i
		}
	}
	return -1
}

func (m *verifQModel) insert(it *verifItem) {
	pos := len(m.items)
	for i, x := range m.items {
		if x.score < it.score {
			pos = i
			break
		}
	}
	m.items = append(m.items, nil)
	copy(m.items[pos+1:], m.items[pos:])
	m.items[pos] = it
	m.bytes += it.size
}

func (m *verifQModel) removeAt(i int) {
	m.bytes -= m.items[i].size
	m.items = append(m.items[:i:i], m.items[i+1:]...)
}

// push returns the expected error of Queue.Push
func (m *verifQModel) push(it *verifItem) error {
	if m.find(it.id) >= 0 {
		return types.ErrTxExist
	}
	if len(m.items) >= m.max {
		tail := m.items[len(m.items)-1]
		if it.score > tail.score || (it.score == tail.score && it.rank > tail.rank) {
			m.removeAt(len(m.items) - 1)
		} else {
			return types.ErrMemFull
		}
	}
	m.insert(it)
	return nil
}

func verifC24Compare(q *Queue, m *verifQModel, pool []*verifItem, step int) {
	verifAssert("C24/size", q.Size() == len(m.items))
	verifAssert("C24/capacity", q.Size() <= m.max)
	verifAssert("C24/bytes", q.GetCacheBytes() == m.bytes)
	// full walk, in order
	var seen []*verifItem
	q.Walk(0, func(v Scorer) bool {
		seen = append(seen, v.(*verifItem))
		return true
	})
	verifAssert("C24/walk-length", len(seen) == len(m.items))
	for i := range seen {
		if i < len(m.items) {
			verifAssert("C24/walk-order", seen[i] == m.items[i])
		}
	}
	for i := 1; i < len(seen); i++ {
		verifAssert("C24/descending-score", seen[i-1].score >= seen[i].score)
	}
	if len(m.items) == 0 {
		verifAssert("C24/first-empty", q.First() == nil)
		verifAssert("C24/last-empty", q.Last() == nil)
	} else {
		verifAssert("C24/first", q.First().(*verifItem) == m.items[0])
		verifAssert("C24/last", q.Last().(*verifItem) == m.items[len(m.items)-1])
	}
	for _, it := range pool {
		in := m.find(it.id) >= 0
		verifAssert("C24/exist", q.Exist(it.hash) == in)
		got, err := q.GetItem(it.hash)
		if in {
			verifAssert("C24/getitem", err == nil && got.(*verifItem) == it)
		} else {
			verifAssert("C24/getitem-missing", err == types.ErrNotFound)
		}
	}
	// bounded walk
	if len(m.items) >= 2 {
		n := 0
		q.Walk(1, func(v Scorer) bool { n++; return true })
		verifAssert("C24/walk-count", n == 1)
	}
}

// verifC24_queue: from the empty queue, nops operations over a pool of items with
// symbolic scores (negative and equal included), symbolic tie-break ranks and sizes;
// skip-list node levels are symbolic (rand.Int is nondeterministic).
func verifC24_queue() {
	nitems := verifParam("items", 4)
	nops := verifParam("ops", 4)
	maxsize := 1 + verifChoose("maxsize", verifParam("maxcap", 3))
	pool := make([]*verifItem, nitems)
	for i := range pool {
		pool[i] = &verifItem{id: i, score: verifI64("score"), rank: verifI64("rank"), size: int64(verifU8("size")), hash: string([]byte{'h', byte('0' + i)})}
	}
	q := NewQueue(int64(maxsize))
	m := &verifQModel{max: maxsize}
	for step := 0; step < nops; step++ {
		op := verifChoose("op", 2)
		k := verifChoose("item", nitems)
		it := pool[k]
		if op == 0 {
			want := m.push(it)
			got := q.Push(it)
			verifAssert("C24/push-result", got == want)
		} else {
			i := m.find(it.id)
			got := q.Remove(it.hash)
			if i >= 0 {
				m.removeAt(i)
				verifAssert("C24/remove-ok", got == nil)
			} else {
				verifAssert("C24/remove-missing", got == types.ErrNotFound)
			}
		}
		verifC24Compare(q, m, pool, step)
	}
	verifObserve("final", q.Size(), q.GetCacheBytes())
}

// verifC24_skiplist: the skip list alone — insert/delete of symbolic scores, every level
// assignment up to the budget; order, length, prev/next links and Find agree with a sorted list.
func verifC24_skiplist() {
	n := verifParam("values", 4)
	sl := NewSkipList(&SkipValue{Score: -1, Value: nil})
	var model []*SkipValue // descending score, equal scores: newest last
	vals := make([]*SkipValue, n)
	for i := range vals {
		vals[i] = &SkipValue{Score: verifI64("score"), Value: i}
	}
	nops := verifParam("ops", 4)
	for step := 0; step < nops; step++ {
		op := verifChoose("op", 2)
		v := vals[verifChoose("val", n)]
		if op == 0 {
			sl.Insert(v)
			pos := len(model)
			for i, x := range model {
				if x.Score < v.Score {
					pos = i
					break
				}
			}
			model = append(model, nil)
			copy(model[pos+1:], model[pos:])
			model[pos] = v
		} else {
			// Delete removes the first node with an equal score
			r := sl.Delete(v)
			idx := -1
			for i, x := range model {
				if x.Score == v.Score {
					idx = i
					break
				}
			}
			if idx >= 0 {
				verifAssert("C24/sl-delete-found", r == 1)
				model = append(model[:idx:idx], model[idx+1:]...)
			} else {
				verifAssert("C24/sl-delete-missing", r == 0)
			}
		}
		verifAssert("C24/sl-len", sl.Len() == len(model))
		// forward
		i := 0
		for e := sl.header.Next(); e != nil; e = e.Next() {
			verifAssert("C24/sl-forward-bound", i < len(model))
			verifAssert("C24/sl-forward-order", e.Value.Score == model[i].Score)
			i++
		}
		verifAssert("C24/sl-forward-len", i == len(model))
		// backward from tail
		j := len(model) - 1
		it := sl.GetIterator()
		if last := it.Last(); last != nil {
			for nd := it.node; nd != nil; nd = nd.Prev() {
				verifAssert("C24/sl-backward-bound", j >= 0)
				verifAssert("C24/sl-backward-order", nd.Value.Score == model[j].Score)
				j--
			}
		}
		verifAssert("C24/sl-backward-len", j == -1)
		// every level's chain is sorted and a sub-sequence
		for l := 0; l < sl.level; l++ {
			var prev *skipListNode
			for e := sl.header.next[l]; e != nil; e = e.next[l] {
				if prev != nil {
					verifAssert("C24/sl-level-sorted", prev.Value.Score >= e.Value.Score)
				}
				prev = e
			}
		}
		probe := &SkipValue{Score: verifI64("probe")}
		f := sl.Find(probe)
		has := false
		for _, x := range model {
			if x.Score == probe.Score {
				has = true
			}
		}
		verifAssert("C24/sl-find", (f != nil) == has)
		if f != nil {
			verifAssert("C24/sl-find-score", f.Score == probe.Score)
		}
	}
}
