package PKGNAME

import (
	"bytes"

	"github.com/33cn/chain33/client"
	"github.com/33cn/chain33/queue"
	"github.com/33cn/chain33/types"
)

type verifClient11 struct {
	queue.Client
	cfg *types.Chain33Config
}

func (c *verifClient11) GetConfig() *types.Chain33Config { return c.cfg }
func (c *verifClient11) NewMessage(topic string, ty int64, data interface{}) *queue.Message {
	return &queue.Message{}
}
func (c *verifClient11) Send(msg *queue.Message, waitReply bool) error { return types.ErrNotFound }

// model of the blockchain module's local database service: a committed map and one
// open transaction layer (semantics of common/db.LocalDB, property C08)
type verifLocalAPI struct {
	client.QueueProtocolAPI
	committed map[string][]byte
	tx        map[string][]byte
	intx      bool
	log       []string // every key ever made durable (committed), in order
}

func (a *verifLocalAPI) LocalNew(readOnly bool) (*types.Int64, error) { return &types.Int64{Data: 1}, nil }
func (a *verifLocalAPI) LocalClose(*types.Int64) error                  { return nil }
func (a *verifLocalAPI) LocalBegin(*types.Int64) error {
	a.intx = true
	a.tx = map[string][]byte{}
	return nil
}
func (a *verifLocalAPI) LocalCommit(*types.Int64) error {
	for k, v := range a.tx {
		a.committed[k] = v
		a.log = append(a.log, k+"="+string(v))
	}
	a.intx = false
	a.tx = map[string][]byte{}
	return nil
}
func (a *verifLocalAPI) LocalRollback(*types.Int64) error {
	a.intx = false
	a.tx = map[string][]byte{}
	return nil
}
func (a *verifLocalAPI) LocalSet(p *types.LocalDBSet) error {
	for _, kv := range p.KV {
		if a.intx {
			a.tx[string(kv.Key)] = kv.Value
		} else {
			a.committed[string(kv.Key)] = kv.Value
			a.log = append(a.log, string(kv.Key)+"="+string(kv.Value))
		}
	}
	return nil
}
func (a *verifLocalAPI) get(k string) []byte {
	if a.intx {
		if v, ok := a.tx[k]; ok {
			return v
		}
	}
	return a.committed[k]
}
func (a *verifLocalAPI) LocalGet(p *types.LocalDBGet) (*types.LocalReplyValue, error) {
	r := &types.LocalReplyValue{}
	for _, k := range p.Keys {
		v := a.get(string(k))
		if len(v) == 0 {
			r.Values = append(r.Values, nil)
		} else {
			r.Values = append(r.Values, v)
		}
	}
	return r, nil
}
func (a *verifLocalAPI) LocalList(p *types.LocalDBList) (*types.LocalReplyValue, error) {
	r := &types.LocalReplyValue{}
	for _, k := range []string{"LODB-x-a", "LODB-x-b"} {
		if bytes.HasPrefix([]byte(k), p.Prefix) {
			if v := a.get(k); len(v) > 0 {
				r.Values = append(r.Values, v)
			}
		}
	}
	return r, nil
}

// verifC11_kernel: a block's worth of transactions, each Begin; writes to state and local
// data; then success (Commit) or failure (Rollback). Later transactions - and the durable
// local database - see exactly the writes of the successful ones.
func verifC11_kernel() {
	cfg := types.VerifNewConfigForks("verif", types.DefaultCoinPrecision, nil, map[string]int64{"ForkExecRollback": 0})
	cli := &verifClient11{cfg: cfg}
	api := &verifLocalAPI{committed: map[string][]byte{}, tx: map[string][]byte{}}
	state := NewStateDB(cli, nil, nil, &StateDBOption{Height: 10}).(*StateDB)
	local := NewLocalDB(cli, api, false).(*LocalDB)
	keys := []string{"LODB-x-a", "LODB-x-b"}
	skeys := []string{"mavl-x-a", "mavl-x-b"}
	wantLocal := map[string]string{}
	wantState := map[string]string{}
	ntx := verifParam("txs", 3)
	for t := 0; t < ntx; t++ {
		state.Begin()
		local.Begin()
		pendL := map[string]string{}
		pendS := map[string]string{}
		nw := verifChoose("writes", 1+verifParam("maxwrites", 2))
		for w := 0; w < nw; w++ {
			if w > 0 && verifChoose("next-group-member", 2) == 1 {
				// a transaction group: each member starts with StartTx inside one Begin..Commit
				state.StartTx()
				local.StartTx()
			}
			k := verifChoose("key", 2)
			val := string([]byte{byte('0' + t), byte('a' + w)})
			if verifChoose("where", 2) == 0 {
				state.Set([]byte(skeys[k]), []byte(val))
				pendS[skeys[k]] = val
			} else {
				local.Set([]byte(keys[k]), []byte(val))
				pendL[keys[k]] = val
			}
		}
		// reads inside the transaction see its own writes
		if verifChoose("list-inside", 2) == 1 {
			local.List([]byte("LODB-x-"), nil, 0, 1)
		}
		if nw > 0 && verifChoose("failing-member-writes-nothing", 2) == 1 {
			state.StartTx()
			local.StartTx()
		}
		if verifBool("succeeds") {
			verifAssert("C11/commit-ok", state.Commit() == nil && local.Commit() == nil)
			for k, v := range pendL {
				wantLocal[k] = v
			}
			for k, v := range pendS {
				wantState[k] = v
			}
		} else {
			state.Rollback()
			local.Rollback()
		}
		// the fee stage of the next transaction reads state before any Begin
		for k := 0; k < 2; k++ {
			v0, err0 := state.Get([]byte(skeys[k]))
			if w, ok := wantState[skeys[k]]; ok {
				verifAssert("C11/fee-stage-sees-committed-state", err0 == nil && string(v0) == w)
			} else {
				verifAssert("C11/fee-stage-does-not-see-failed-state", err0 != nil)
			}
		}
		// the next transaction's view
		state.Begin()
		local.Begin()
		for k := 0; k < 2; k++ {
			v, err := local.Get([]byte(keys[k]))
			if w, ok := wantLocal[keys[k]]; ok {
				verifAssert("C11/later-tx-sees-committed-local", err == nil && string(v) == w)
			} else {
				verifAssert("C11/later-tx-does-not-see-failed-local", err != nil)
			}
			v2, err2 := state.Get([]byte(skeys[k]))
			if w, ok := wantState[skeys[k]]; ok {
				verifAssert("C11/later-tx-sees-committed-state", err2 == nil && string(v2) == w)
			} else {
				verifAssert("C11/later-tx-does-not-see-failed-state", err2 != nil)
			}
		}
		lst, _ := local.List([]byte("LODB-x-"), nil, 0, 1)
		n := 0
		for range wantLocal {
			n++
		}
		verifAssert("C11/list-shows-only-committed", len(lst) == n)
		state.Rollback()
		local.Rollback()
	}
	// durable local data: flush everything and compare with the expectation
	local.Begin()
	local.Commit()
	for k := 0; k < 2; k++ {
		got := string(api.committed[keys[k]])
		verifAssert("C11/durable-local-equals-successful-writes", got == wantLocal[keys[k]])
	}
}
