package PKGNAME

import (
	"bytes"

	"github.com/33cn/chain33/common"
	"github.com/33cn/chain33/common/crypto"
)

// ---- ideal signature scheme: sig = H(priv || msg), pub = priv ----
type verifPriv struct{ b []byte }
type verifPub struct{ b []byte }
type verifSig struct{ b []byte }

func (p verifPriv) Bytes() []byte { return p.b }
func (p verifPriv) Sign(msg []byte) crypto.Signature {
	return verifSig{common.Sha256(append(append([]byte{}, p.b...), msg...))}
}
func (p verifPriv) PubKey() crypto.PubKey         { return verifPub{p.b} }
func (p verifPriv) Equals(o crypto.PrivKey) bool  { return bytes.Equal(p.b, o.Bytes()) }
func (p verifPub) Bytes() []byte                  { return p.b }
func (p verifPub) KeyString() string              { return string(p.b) }
func (p verifPub) Equals(o crypto.PubKey) bool    { return bytes.Equal(p.b, o.Bytes()) }
func (p verifPub) VerifyBytes(msg []byte, sig crypto.Signature) bool {
	return bytes.Equal(sig.Bytes(), common.Sha256(append(append([]byte{}, p.b...), msg...)))
}
func (s verifSig) Bytes() []byte                  { return s.b }
func (s verifSig) IsZero() bool                   { return len(s.b) == 0 }
func (s verifSig) String() string                 { return "sig" }
func (s verifSig) Equals(o crypto.Signature) bool { return bytes.Equal(s.b, o.Bytes()) }

type verifDriver struct{}

func (verifDriver) GenKey() (crypto.PrivKey, error) { return verifPriv{[]byte{1}}, nil }
func (verifDriver) SignatureFromBytes(b []byte) (crypto.Signature, error) {
	return verifSig{b}, nil
}
func (verifDriver) PrivKeyFromBytes(b []byte) (crypto.PrivKey, error) { return verifPriv{b}, nil }
func (verifDriver) PubKeyFromBytes(b []byte) (crypto.PubKey, error)   { return verifPub{b}, nil }
func (verifDriver) Validate(msg, pub, sig []byte) error {
	if (verifPub{pub}).VerifyBytes(msg, verifSig{sig}) {
		return nil
	}
	return crypto.ErrSign
}

const verifSigTy = 200

func verifC16Register(enable int64) {
	if crypto.GetType("verifsig") != verifSigTy {
		crypto.Register("verifsig", verifDriver{}, crypto.WithRegOptionTypeID(verifSigTy))
	}
	crypto.Init(&crypto.Config{EnableHeight: map[string]int64{"verifsig": enable}}, nil)
}

func verifC16Tx(name string) *Transaction {
	n := verifParam("bytes", 1)
	tx := &Transaction{
		Execer:     verifBytes(name+".execer", 1+verifChoose(name+".execer.len", n)),
		Payload:    verifBytes(name+".payload", verifChoose(name+".payload.len", n+1)),
		Fee:        verifI64(name + ".fee"),
		Expire:     verifI64(name + ".expire"),
		Nonce:      verifI64(name + ".nonce"),
		To:         string(verifBytes(name+".to", verifChoose(name+".to.len", n+1))),
		GroupCount: verifI32(name + ".groupcount"),
		Header:     verifBytes(name+".header", verifChoose(name+".header.len", n+1)),
		Next:       verifBytes(name+".next", verifChoose(name+".next.len", n+1)),
		ChainID:    verifI32(name + ".chainid"),
	}
	if verifChoose(name+".signed", 2) == 1 {
		tx.Signature = &Signature{Ty: verifI32(name + ".sigty"), Pubkey: verifBytes(name+".pub", 1), Signature: verifBytes(name+".sig", 1)}
	}
	return tx
}

// equality of every field that the hash must bind (everything except Signature and Header)
func verifC16SameHashed(a, b *Transaction) bool {
	return bytes.Equal(a.Execer, b.Execer) && bytes.Equal(a.Payload, b.Payload) && a.Fee == b.Fee &&
		a.Expire == b.Expire && a.Nonce == b.Nonce && a.To == b.To && a.GroupCount == b.GroupCount &&
		bytes.Equal(a.Next, b.Next) && a.ChainID == b.ChainID
}

// verifC16_hash_binds: Hash(t1) == Hash(t2) iff all hashed fields agree (collision-free hash).
func verifC16_hash_binds() {
	t1 := verifC16Tx("t1")
	t2 := verifC16Tx("t2")
	same := verifC16SameHashed(t1, t2)
	eq := bytes.Equal(t1.Hash(), t2.Hash())
	verifAssert("C16/hash-equal-iff-hashed-fields-equal", eq == same)
}

// verifC16_clone: Clone / CloneTx keep every field, the hash and the full hash.
func verifC16_clone() {
	t := verifC16Tx("t")
	for k, c := range []*Transaction{t.Clone(), CloneTx(t)} {
		_ = k
		verifAssert("C16/clone-keeps-hashed-fields", verifC16SameHashed(t, c) && bytes.Equal(t.Header, c.Header))
		verifAssert("C16/clone-keeps-hash", bytes.Equal(t.Hash(), c.Hash()))
		verifAssert("C16/clone-keeps-fullhash", bytes.Equal(t.FullHash(), c.FullHash()))
		if t.Signature == nil {
			verifAssert("C16/clone-keeps-nil-signature", c.Signature == nil)
		} else {
			verifAssert("C16/clone-keeps-signature", c.Signature != nil && c.Signature.Ty == t.Signature.Ty &&
				bytes.Equal(c.Signature.Pubkey, t.Signature.Pubkey) && bytes.Equal(c.Signature.Signature, t.Signature.Signature))
		}
	}
}

// verifC16_sign: an honestly signed transaction verifies exactly at heights where the
// signature type is enabled - whatever was verified before - and any altered signed
// field, public key or signature byte makes verification fail.
func verifC16_sign() {
	enable := verifI64("enable-height")
	verifAssume(enable >= 0)
	verifC16Register(enable)
	tx := verifC16Tx("t")
	tx.Signature = nil
	priv := verifPriv{verifBytes("priv", 1)}
	tx.Sign(verifSigTy, priv)
	// an earlier verification at another height must not influence the next one
	h1 := verifI64("earlier-height")
	verifAssume(h1 >= 0)
	first := tx.CheckSign(h1)
	verifAssert("C16/verify-iff-enabled-first", first == (h1 >= enable))
	h2 := verifI64("height")
	verifAssume(h2 >= 0)
	verifAssert("C16/verify-iff-enabled", tx.CheckSign(h2) == (h2 >= enable))
	// tamper with one signed field
	verifAssume(h2 >= enable)
	alt := tx.Clone()
	switch verifChoose("tamper", 9) {
	case 0:
		alt.Fee = verifI64("alt.fee")
		verifAssume(alt.Fee != tx.Fee)
	case 1:
		alt.Expire = verifI64("alt.expire")
		verifAssume(alt.Expire != tx.Expire)
	case 2:
		alt.Nonce = verifI64("alt.nonce")
		verifAssume(alt.Nonce != tx.Nonce)
	case 3:
		alt.Payload = verifBytes("alt.payload", len(tx.Payload))
		verifAssume(!bytes.Equal(alt.Payload, tx.Payload))
	case 4:
		alt.Header = verifBytes("alt.header", len(tx.Header))
		verifAssume(!bytes.Equal(alt.Header, tx.Header))
	case 5:
		alt.ChainID = verifI32("alt.chainid")
		verifAssume(alt.ChainID != tx.ChainID)
	case 6:
		alt.Signature.Pubkey = verifBytes("alt.pub", 1)
		verifAssume(!bytes.Equal(alt.Signature.Pubkey, tx.Signature.Pubkey))
	case 7:
		alt.Signature.Signature = verifBytes("alt.sig", 32)
		verifAssume(!bytes.Equal(alt.Signature.Signature, tx.Signature.Signature))
	case 8:
		alt.GroupCount = verifI32("alt.groupcount")
		verifAssume(alt.GroupCount != tx.GroupCount)
	}
	verifAssert("C16/tampered-does-not-verify", !alt.CheckSign(h2))
}
