package types

// Helpers injected into package types by the verification harnesses (overlay only).

// VerifNewConfig builds a Chain33Config directly (no toml parsing): main chain, coins/bty.
func VerifNewConfig(precision int64, minerExecs []string) *Chain33Config {
	return VerifNewConfigForks("verif", precision, minerExecs, map[string]int64{})
}

// VerifNewConfigForks: like VerifNewConfig with a title and explicit fork heights
// (a fork missing from the map is never active).
func VerifNewConfigForks(title string, precision int64, minerExecs []string, forks map[string]int64) *Chain33Config {
	return &Chain33Config{
		title:          title,
		coinExec:       "coins",
		coinSymbol:     "bty",
		coinPrecision:  precision,
		tokenPrecision: precision,
		minerExecs:     minerExecs,
		chainConfig:    map[string]interface{}{},
		mcfg:           &Config{},
		forks:          &Forks{forks: forks},
	}
}

// VerifSetMver sets a multi-version configuration value (same value at every height).
func VerifSetMver(c *Chain33Config, key string, value interface{}) {
	if c.mver == nil {
		c.mver = &mversion{data: map[string]interface{}{}, version: map[string]*versionList{}}
	}
	c.mver.data[key] = value
}

// VerifSetChainConfig sets a chain configuration item (cfg.G / IsEnable / GInt ...).
func VerifSetChainConfig(c *Chain33Config, key string, value interface{}) {
	c.chainConfig[key] = value
}

// VerifSetP2PTypes sets the module configuration's p2p types (p2p.NewP2PMgr needs one).
func VerifSetP2PTypes(c *Chain33Config, tys ...string) {
	if c.mcfg.P2P == nil {
		c.mcfg.P2P = &P2P{}
	}
	c.mcfg.P2P.Types = tys
}
