package address

// Verification harness helpers (overlay only).

// VerifPurgeCheckCache empties the address-validity cache.
func VerifPurgeCheckCache() { checkAddressCache.Purge() }

// VerifSetDriver registers or replaces a driver with the given enable height, and removes
// every other non-builtin driver id >= 5 not in keep (native replays run several cases in
// one process).
func VerifSetDriver(id int32, d Driver, enableHeight int64) {
	if old, ok := drivers[id]; ok {
		delete(driverName, old.driver.GetName())
		delete(drivers, id)
	}
	RegisterDriver(id, d, enableHeight)
	checkAddressCache.Purge()
}

// VerifDropDriver removes a driver registered by the harness.
func VerifDropDriver(id int32) {
	if old, ok := drivers[id]; ok {
		delete(driverName, old.driver.GetName())
		delete(drivers, id)
	}
	checkAddressCache.Purge()
}
