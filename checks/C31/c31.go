package PKGNAME

import (
	"bytes"

	"github.com/33cn/chain33/common"
	"github.com/33cn/chain33/common/address"
)

// ideal address driver for the sender side: address of key k = "0x" + hex(k) when k has 20
// bytes (an eth-style sender), otherwise "A" + k
type verifC31Drv struct{}

func (verifC31Drv) PubKeyToAddr(pubKey []byte) string {
	if len(pubKey) == 20 {
		return common.ToHex(pubKey)
	}
	return "A" + string(pubKey)
}
func (verifC31Drv) ValidateAddr(addr string) error         { return nil }
func (verifC31Drv) GetName() string                        { return "verifc31" }
func (verifC31Drv) FromString(addr string) ([]byte, error) { return []byte(addr), nil }
func (verifC31Drv) ToString(addr []byte) string            { return string(addr) }
func (verifC31Drv) FormatAddr(addr string) string          { return addr }

const verifC31Blocked = "0xab12cd34ef56ab12cd34ef56ab12cd34ef56ab12"

// verifC31Spelling: the blocked address with the letter case of some positions symbolic
// (each such character is either the lower- or the upper-case letter), optionally with one
// nibble changed to a different hex digit.
func verifC31Spelling() (string, bool) {
	b := []byte(verifC31Blocked)
	for _, pos := range []int{2, 7, 39} { // 'a', 'b', ... letter positions
		c := verifU8("case")
		verifAssume(c == b[pos] || c == b[pos]-32)
		b[pos] = c
	}
	same := true
	if verifChoose("other-address", 2) == 1 {
		pos := []int{4, 20, 40}[verifChoose("changed-nibble", 3)]
		c := verifU8("digit")
		verifAssume(c >= '0' && c <= '9' && c != b[pos])
		b[pos] = c
		same = false
	}
	return string(b), same
}

// verifC31_blocked: with the rule active, a transaction is rejected iff its sender, its
// recipient, its real recipient or its EVM target is the blocked account in any spelling;
// before the fork height nothing is rejected by the consensus-level check.
func verifC31_blocked() {
	address.VerifSetDriver(0, verifC31Drv{}, 0)
	restore := SetBlockedAccountsForTest([]string{verifC31Blocked})
	defer restore()
	raw, _ := common.FromHex(verifC31Blocked)
	forkHeight := verifI64("fork-height")
	height := verifI64("height")
	verifAssume(forkHeight >= 0 && height >= 0)
	cfg := VerifNewConfigForks("verif", DefaultCoinPrecision, nil, map[string]int64{ForkAccountBlacklist: forkHeight})

	tx := &Transaction{Execer: []byte("none"), Payload: []byte{1}, To: "Aother", Signature: &Signature{Ty: 1, Pubkey: []byte("sender")}}
	hit := false
	switch verifChoose("where", 5) {
	case 0: // nowhere
	case 1: // recipient, any spelling
		var same bool
		tx.To, same = verifC31Spelling()
		hit = same
	case 2: // sender: 20 symbolic key bytes (address = their hex)
		// (one symbolic byte: every hex character of the address is inspected by the
		// address-format test, which forks per symbolic character)
		key := append([]byte{}, raw...)
		key[verifChoose("sender-key.byte", 2)*19] = verifU8("sender-key")
		tx.Signature.Pubkey = key
		hit = bytes.Equal(key, raw)
	case 3: // EVM transfer: 20 raw bytes in the payload
		para := verifWide("evm-para", 20)
		tx.Execer = []byte([]string{"evm", "user.p.x.evm", "user.evm.abc"}[verifChoose("evm-execer", 3)])
		tx.Payload = Encode(&EVMContractAction4Chain33{Para: para})
		hit = bytes.Equal(para, raw)
	case 4: // EVM contract call: contract address in any spelling
		tx.Execer = []byte("evm")
		addr, same := verifC31Spelling()
		tx.Payload = Encode(&EVMContractAction4Chain33{ContractAddr: addr, Para: []byte{1, 2, 3}})
		hit = same
	}
	err := CheckTxBlockedAccount(cfg, height, tx)
	verifAssert("C31/consensus-check-rejects-iff-rule-active-and-blocked", (err != nil) == (hit && height >= forkHeight))
	verifAssert("C31/entry-check-rejects-iff-blocked", (CheckTxBlockedAccountImmediate(tx) != nil) == hit)
	// a group is rejected iff a member is
	other := &Transaction{Execer: []byte("none"), Payload: []byte{2}, To: "Aother", Signature: &Signature{Ty: 1, Pubkey: []byte("sender")}}
	verifAssert("C31/group-rejected-iff-member", (CheckTxsBlockedAccount(cfg, height, []*Transaction{other, tx}) != nil) == (hit && height >= forkHeight))
	verifObserve("hit", hit, err != nil)
}
