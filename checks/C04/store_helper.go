package store

import dbm "github.com/33cn/chain33/common/db"

// VerifNewBaseStore builds a BaseStore over a given database (verification harness overlay).
func VerifNewBaseStore(db dbm.DB) *BaseStore { return &BaseStore{db: db} }
