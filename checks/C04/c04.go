package PKGNAME

import (
	"bytes"
	"sync"

	dbm "github.com/33cn/chain33/common/db"
	drivers "github.com/33cn/chain33/system/store"
	mavl "github.com/33cn/chain33/system/store/mavl/db"
	"github.com/33cn/chain33/types"
	lru "github.com/hashicorp/golang-lru"
)

// node database model: a key/value map compared by equality (ordered backends are C06/C07),
// with or without the ARC node cache. Values are stored by reference, like a real database
// stores the bytes it was given.
type verifC04DB struct {
	dbm.DB
	m     map[string][]byte
	cache *lru.ARCCache
	reads int
}

func (d *verifC04DB) Get(key []byte) ([]byte, error) {
	d.reads++
	if v, ok := d.m[string(key)]; ok {
		return v, nil
	}
	return nil, dbm.ErrNotFoundInDb
}
func (d *verifC04DB) GetCache() *lru.ARCCache      { return d.cache }
func (d *verifC04DB) NewBatch(sync bool) dbm.Batch { return &verifC04Batch{db: d} }

type verifC04Op struct {
	key string
	val []byte
	del bool
}
type verifC04Batch struct {
	dbm.Batch
	db  *verifC04DB
	ops []verifC04Op
}

func (b *verifC04Batch) Set(key, value []byte) {
	b.ops = append(b.ops, verifC04Op{key: string(key), val: value})
}
func (b *verifC04Batch) Delete(key []byte) { b.ops = append(b.ops, verifC04Op{key: string(key), del: true}) }
func (b *verifC04Batch) Write() error {
	for _, o := range b.ops {
		if o.del {
			delete(b.db.m, o.key)
		} else {
			b.db.m[o.key] = o.val
		}
	}
	b.ops = nil
	return nil
}
func (b *verifC04Batch) ValueSize() int { return len(b.ops) }
func (b *verifC04Batch) ValueLen() int  { return len(b.ops) }
func (b *verifC04Batch) Reset()         { b.ops = nil }

func verifC04Store(db *verifC04DB, prefix bool) *Store {
	return &Store{drivers.VerifNewBaseStore(db), &sync.Map{}, &mavl.TreeConfig{EnableMavlPrefix: prefix}}
}

func verifC04NewDB(cached bool) *verifC04DB {
	db := &verifC04DB{m: map[string][]byte{}}
	if cached {
		db.cache, _ = lru.NewARC(64)
	}
	return db
}

type verifC04KV struct{ k, v []byte }

func verifC04Writes(name string, n int) []*types.KeyValue {
	var kvs []*types.KeyValue
	for i := 0; i < n; i++ {
		kvs = append(kvs, &types.KeyValue{Key: verifBytes(name+".key", 1), Value: verifBytes(name+".value", 1)})
	}
	return kvs
}

// model of the committed content at a root
func verifC04Apply(base []verifC04KV, kvs []*types.KeyValue) []verifC04KV {
	out := append([]verifC04KV(nil), base...)
	for _, kv := range kvs {
		found := false
		for i := range out {
			if bytes.Equal(out[i].k, kv.Key) {
				out[i].v = kv.Value
				found = true
			}
		}
		if !found {
			out = append(out, verifC04KV{kv.Key, kv.Value})
		}
	}
	return out
}

func verifC04ReadsAre(label string, s *Store, root []byte, want []verifC04KV, probe []byte) {
	keys := [][]byte{probe}
	for _, w := range want {
		keys = append(keys, w.k)
	}
	got := s.Get(&types.StoreGet{StateHash: root, Keys: keys})
	for i, k := range keys {
		var exp []byte
		for _, w := range want {
			if bytes.Equal(w.k, k) {
				exp = w.v
			}
		}
		if exp == nil {
			verifAssert(label+"-absent-key-not-readable", got[i] == nil)
		} else {
			verifAssert(label+"-committed-value-readable", bytes.Equal(got[i], exp))
		}
	}
}

// verifC04_pending: block 0 is committed; two competing pending updates are computed on top
// of it; each is committed, rolled back or left alone; optionally the process restarts (new
// store over the same database). Reads at the committed roots are exactly their content.
func verifC04_pending() {
	cached := verifChoose("node-cache", 2) == 1
	prefix := verifChoose("prefix", 2) == 1
	db := verifC04NewDB(cached)
	s := verifC04Store(db, prefix)
	n := verifParam("writes", 2)
	w0 := verifC04Writes("w0", n)
	root0, err := s.Set(&types.StoreSet{StateHash: nil, KV: w0, Height: 0}, true)
	verifAssert("C04/genesis-set", err == nil && root0 != nil)
	c0 := verifC04Apply(nil, w0)
	probe := verifBytes("probe", 1)
	verifC04ReadsAre("C04/base", s, root0, c0, probe)

	np := verifParam("pending", 1)
	// a pending update may be empty (an empty block): its root is its parent's root
	wa, wb := verifC04Writes("wa", verifChoose("wa.count", np+1)), verifC04Writes("wb", verifChoose("wb.count", np+1))
	rootA, err := s.MemSet(&types.StoreSet{StateHash: root0, KV: wa, Height: 1}, true)
	verifAssert("C04/memset-a", err == nil)
	rootB, err := s.MemSet(&types.StoreSet{StateHash: root0, KV: wb, Height: 1}, true)
	verifAssert("C04/memset-b", err == nil)
	ca, cb := verifC04Apply(c0, wa), verifC04Apply(c0, wb)
	// while the updates are pending, the committed root reads as before
	verifC04ReadsAre("C04/base-while-pending", s, root0, c0, probe)
	// pending updates are not yet part of the database
	committedA, committedB := false, false
	for _, which := range []int{0, 1} {
		root := [][]byte{rootA, rootB}[which]
		switch verifChoose("fate", 3) {
		case 0:
			_, err := s.Commit(&types.ReqHash{Hash: root})
			// two identical updates are one pending entry: after rolling one back (or
			// committing it) the other is gone too
			verifAssert("C04/commit-succeeds", err == nil || bytes.Equal(rootA, rootB))
			if err == nil {
				if which == 0 {
					committedA = true
				} else {
					committedB = true
				}
			}
		case 1:
			s.Rollback(&types.ReqHash{Hash: root})
		}
	}
	if verifChoose("restart", 2) == 1 {
		db.cache = nil
		if cached {
			db.cache, _ = lru.NewARC(64)
		}
		s = verifC04Store(db, prefix)
	}
	verifC04ReadsAre("C04/base-after", s, root0, c0, probe)
	if committedA {
		verifC04ReadsAre("C04/branch-a", s, rootA, ca, probe)
	}
	if committedB {
		verifC04ReadsAre("C04/branch-b", s, rootB, cb, probe)
	}
	verifObserve("committed", committedA, committedB)
}

// verifC02_root: the same writes on the same committed root give the same new root whether
// applied directly or as a pending update committed later, with or without key prefixing
// and node cache, and whatever unrelated pending update was computed and rolled back or
// committed before.
func verifC02_root() {
	n := verifParam("writes", 2)
	w0 := verifC04Writes("w0", n)
	w1 := verifC04Writes("w1", n)
	other := verifC04Writes("other", 1)
	var roots [][]byte
	// instance 0: reference (no prefix, no cache, direct Set, nothing else going on);
	// instance 1: a chosen configuration, path and unrelated activity
	chosen := verifChoose("configuration", 4)
	for inst := 0; inst < 2; inst++ {
		cfg := 0
		if inst == 1 {
			cfg = chosen
		}
		cached, prefix := cfg&1 == 1, cfg&2 == 2
		db := verifC04NewDB(cached)
		s := verifC04Store(db, prefix)
		root0, err := s.Set(&types.StoreSet{KV: w0, Height: 0}, true)
		verifAssert("C02/genesis-set", err == nil)
		if inst == 0 {
			roots = append(roots, root0)
		} else {
			verifAssert("C02/genesis-root-independent-of-configuration", bytes.Equal(root0, roots[0]))
		}
		// an unrelated pending update, rolled back or committed first
		if inst == 1 && verifChoose("unrelated", 3) > 0 {
			r, err := s.MemSet(&types.StoreSet{StateHash: root0, KV: other, Height: 1}, true)
			verifAssert("C02/unrelated-memset", err == nil)
			if verifChoose("unrelated-fate", 2) == 0 {
				s.Rollback(&types.ReqHash{Hash: r})
			} else {
				s.Commit(&types.ReqHash{Hash: r})
			}
		}
		var root1 []byte
		if inst == 0 || verifChoose("direct", 2) == 1 {
			root1, err = s.Set(&types.StoreSet{StateHash: root0, KV: w1, Height: 1}, true)
			verifAssert("C02/direct-set", err == nil)
		} else {
			root1, err = s.MemSet(&types.StoreSet{StateHash: root0, KV: w1, Height: 1}, true)
			verifAssert("C02/memset", err == nil)
			_, err = s.Commit(&types.ReqHash{Hash: root1})
			verifAssert("C02/commit", err == nil)
		}
		if inst == 0 {
			roots = append(roots, root1)
		} else {
			verifAssert("C02/root-independent-of-configuration-and-path", bytes.Equal(root1, roots[1]))
		}
	}
	verifObserve("roots", len(roots))
}
