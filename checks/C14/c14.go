package PKGNAME

import (
	"bytes"

	"github.com/33cn/chain33/client"
	"github.com/33cn/chain33/common/address"
	dbm "github.com/33cn/chain33/common/db"
	"github.com/33cn/chain33/types"
)

// ideal address driver: the address is the public key itself
type verifC14Drv struct{}

func (verifC14Drv) PubKeyToAddr(pubKey []byte) string      { return "a" + string(pubKey) }
func (verifC14Drv) ValidateAddr(addr string) error         { return nil }
func (verifC14Drv) GetName() string                        { return "verifc14" }
func (verifC14Drv) FromString(addr string) ([]byte, error) { return []byte(addr), nil }
func (verifC14Drv) ToString(addr []byte) string            { return string(addr) }
func (verifC14Drv) FormatAddr(addr string) string          { return addr }

type verifC14API struct {
	client.QueueProtocolAPI
	cfg *types.Chain33Config
}

func (a *verifC14API) GetConfig() *types.Chain33Config { return a.cfg }

// the block chain's local store as the plugins see it: reads fall through to the durable
// map, Set is buffered in the per-block cache (what executor.LocalDB does)
type verifC14KV struct {
	dbm.KVDB
	durable map[string][]byte
	cache   map[string][]byte
}

func (k *verifC14KV) Get(key []byte) ([]byte, error) {
	if v, ok := k.cache[string(key)]; ok {
		if v == nil {
			return nil, types.ErrNotFound
		}
		return v, nil
	}
	if v, ok := k.durable[string(key)]; ok && v != nil {
		return v, nil
	}
	return nil, types.ErrNotFound
}
func (k *verifC14KV) Set(key, value []byte) error {
	k.cache[string(key)] = value
	return nil
}

// what blockchain.connectBlock / disconnectBlock do with the returned local kv set
func verifC14Apply(durable map[string][]byte, kvs []*types.KeyValue) {
	for _, kv := range kvs {
		if kv.Value == nil {
			delete(durable, string(kv.Key))
		} else {
			durable[string(kv.Key)] = kv.Value
		}
	}
}

func verifC14Plugins() []string {
	var names []string
	for _, n := range sortedPluginNames() {
		switch n {
		case "addrindex", "txindex", "fee", addrFeeIndex:
			names = append(names, n)
		}
	}
	return names
}

// verifC14_undo: ExecLocal of the built-in index plugins followed by ExecDelLocal of the same
// block restores every key of the local store (transaction lookup, per-address lists and
// counts, per-address fee lists, fee totals).
func verifC14_undo() {
	address.VerifSetDriver(0, verifC14Drv{}, 0)
	cfg := types.VerifNewConfigForks("verif", types.DefaultCoinPrecision, nil, map[string]int64{})
	types.VerifSetChainConfig(cfg, "dbversion", int64(verifChoose("dbversion", 2)))
	types.VerifSetChainConfig(cfg, "quickIndex", verifChoose("quickIndex", 2) == 1)
	api := &verifC14API{cfg: cfg}

	durable := map[string][]byte{}
	// history: earlier blocks left counts for the two addresses and a fee total at the parent
	addrs := []string{"aA", "aB"}
	for _, a := range addrs {
		if verifChoose("has-count", 2) == 1 {
			c := verifI64("count")
			verifAssume(c >= 0 && c < 1<<40)
			durable[string(types.CalcAddrTxsCountKey(a))] = types.Encode(&types.Int64{Data: c})
		}
	}
	parent := []byte("parent-hash")
	if verifChoose("has-parent-fee", 2) == 1 {
		f, n := verifI64("parent-fee"), verifI64("parent-txcount")
		verifAssume(f >= 0 && f < 1<<50 && n >= 0 && n < 1<<40)
		durable[string(types.TotalFeeKey(parent))] = types.Encode(&types.TotalFee{Fee: f, TxCount: n})
	}
	before := map[string][]byte{}
	for k, v := range durable {
		before[k] = v
	}

	n := verifParam("txs", 2)
	height := int64(verifParam("height", 7))
	block := &types.Block{Height: height, ParentHash: parent, BlockTime: 1600000000}
	detail := &types.BlockDetail{Block: block}
	for i := 0; i < n; i++ {
		from := byte('A' + verifChoose("from", 2))
		to := ""
		switch verifChoose("to", 3) {
		case 1:
			to = "aA"
		case 2:
			to = "aB"
		}
		fee := verifI64("fee")
		verifAssume(fee >= 0 && fee < 1<<40)
		tx := &types.Transaction{Execer: []byte("none"), Payload: []byte{byte(i)}, Fee: fee, To: to, Nonce: verifI64("nonce"),
			Signature: &types.Signature{Ty: 1, Pubkey: []byte{from}}}
		block.Txs = append(block.Txs, tx)
		detail.Receipts = append(detail.Receipts, &types.ReceiptData{Ty: verifI32("receipt-ty")})
	}

	touched := map[string]bool{}
	run := func(del bool) {
		kv := &verifC14KV{durable: durable, cache: map[string][]byte{}}
		ex := &executor{localDB: kv, api: api, height: height, blocktime: block.BlockTime, cfg: cfg}
		var set []*types.KeyValue
		for _, name := range verifC14Plugins() {
			p := globalPlugins[name]
			kvs, ok, err := p.CheckEnable(ex, true)
			verifAssert("C14/plugin-enabled", ok && err == nil && len(kvs) == 0)
			if del {
				kvs, err = p.ExecDelLocal(ex, detail)
			} else {
				kvs, err = p.ExecLocal(ex, detail)
			}
			verifAssert("C14/plugin-no-error", err == nil)
			set = append(set, kvs...)
		}
		for _, kv := range set {
			touched[string(kv.Key)] = true
		}
		verifC14Apply(durable, set)
	}
	run(false)
	verifReach("C14/applied")
	added := len(touched)
	run(true)

	var keys []string
	for k := range touched {
		keys = append(keys, k)
	}
	for _, k := range keys {
		was, had := before[k]
		now, has := durable[k]
		if !had {
			// a key that did not exist may come back as an explicit zero counter only
			if has && bytes.HasPrefix([]byte(k), types.AddrTxsCount) {
				var c types.Int64
				verifAssert("C14/count-decodes", types.Decode(now, &c) == nil)
				verifAssert("C14/count-restored", c.Data == 0)
				continue
			}
			verifAssert("C14/added-key-removed", !has)
			continue
		}
		verifAssert("C14/existing-key-restored", has && bytes.Equal(was, now))
	}
	verifAssert("C14/no-key-outside-the-undo-set", len(touched) == added)
	verifObserve("keys", len(keys))

}
