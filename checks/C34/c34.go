package PKGNAME

import (
	"bytes"
	"container/list"
	"time"

	"github.com/33cn/chain33/p2p"
	"github.com/33cn/chain33/p2p/utils"
	"github.com/33cn/chain33/queue"
	"github.com/33cn/chain33/system/p2p/dht/protocol"
	"github.com/33cn/chain33/types"
	"github.com/libp2p/go-libp2p/core/peer"
)

// message-bus stub: the mempool's answer to EventTxListByHash (one entry per requested short
// hash, nil when unknown) and a record of the blocks posted to the block chain module
type verifC34Client struct {
	queue.Client
	cfg    *types.Chain33Config
	pool   map[string]*types.Transaction
	posted []*types.Block
}

func (c *verifC34Client) GetConfig() *types.Chain33Config { return c.cfg }
func (c *verifC34Client) NewMessage(topic string, ty int64, data interface{}) *queue.Message {
	return &queue.Message{Topic: topic, Ty: ty, Data: data}
}
func (c *verifC34Client) Send(msg *queue.Message, waitReply bool) error {
	if bp, ok := msg.Data.(*types.BlockPid); ok {
		c.posted = append(c.posted, bp.Block)
	}
	return nil
}
func (c *verifC34Client) WaitTimeout(msg *queue.Message, t time.Duration) (*queue.Message, error) {
	req, ok := msg.Data.(*types.ReqTxHashList)
	if !ok {
		return nil, types.ErrNotSupport
	}
	reply := &types.ReplyTxList{}
	for _, h := range req.Hashes {
		reply.Txs = append(reply.Txs, c.pool[h])
	}
	return &queue.Message{Data: reply}, nil
}

var verifC34Cli *verifC34Client

// engine-only replacement of postBlockChain (the real one needs the p2p manager; natively it
// runs and ends in the client's Send above)
func verifC34PostBlockChain(p *broadcastProtocol, blockHash, receiveFrom string, block *types.Block, publisher peer.ID) error {
	verifC34Cli.posted = append(verifC34Cli.posted, block)
	return nil
}

type verifC34Unit struct {
	txs  []*types.Transaction // 1 = plain transaction, more = a group (members as they sit in the block)
	head *types.Transaction   // what the pool holds for it (the transaction, or the group's wire form)
	have bool
}

// verifC34_rebuild: a block of a miner transaction plus 2..3 units (plain transactions or
// groups of 2, symbolic payloads) is announced as a light block; the pool holds any subset of
// the units. Complete pool: the block is rebuilt at once, identical to the original. Otherwise
// it waits; when the missing units arrive it is rebuilt identically; when the pending timeout
// passes first it is handed back for a full-block request and dropped from the waiting list.
func verifC34_rebuild() {
	cfg := types.VerifNewConfig(types.DefaultCoinPrecision, nil)
	cli := &verifC34Client{cfg: cfg, pool: map[string]*types.Transaction{}}
	verifC34Cli = cli
	p := &broadcastProtocol{P2PEnv: &protocol.P2PEnv{QueueClient: cli, ChainCfg: cfg}}
	p.blockFilter = utils.NewFilter(16)
	p.cfg.LtBlockPendTimeout = 1000
	if verifNativeRepeat(2) == 2 {
		types.VerifSetP2PTypes(cfg, "dht")
		mgr := p2p.NewP2PMgr(cfg)
		mgr.Client = cli
		p.P2PManager = mgr
		p.val = newValidator(nil)
	}
	l := &ltBroadcast{broadcastProtocol: p, pendBlockList: list.New(), blockRequestList: list.New()}
	p.ltB = l

	block := &types.Block{Height: 10, BlockTime: 1600000000, Txs: []*types.Transaction{{Execer: []byte("miner"), Payload: []byte{0}}}}
	nunits := 2 + verifChoose("units", verifParam("maxunits", 3)-1)
	var units []*verifC34Unit
	var payloads [][]byte
	fresh := func(name string) []byte {
		b := verifBytes(name, 1)
		for _, o := range payloads {
			verifAssume(!bytes.Equal(b, o)) // distinct transactions
		}
		payloads = append(payloads, b)
		return b
	}
	for k := 0; k < nunits; k++ {
		u := &verifC34Unit{}
		if verifChoose("unit.group", 2) == 1 {
			a := &types.Transaction{Execer: []byte("none"), Payload: fresh("payload"), To: "x"}
			b := &types.Transaction{Execer: []byte("none"), Payload: fresh("payload"), To: "x"}
			g, err := types.CreateTxGroup([]*types.Transaction{a, b}, 0)
			verifAssume(err == nil)
			u.txs, u.head = g.Txs, g.Tx()
		} else {
			t := &types.Transaction{Execer: []byte("none"), Payload: fresh("payload"), To: "x"}
			u.txs, u.head = []*types.Transaction{t}, t
		}
		u.have = verifChoose("unit.in-pool", 2) == 1
		units = append(units, u)
		block.Txs = append(block.Txs, u.txs...)
	}
	lb := p.buildLtBlock(block)
	put := func(u *verifC34Unit) { cli.pool[types.CalcTxShortHash(u.head.Hash())] = u.head }
	complete := true
	for _, u := range units {
		if u.have {
			put(u)
		} else {
			complete = false
		}
	}
	same := func(got *types.Block) {
		verifAssert("C34/rebuilt-block-has-the-same-transactions", len(got.Txs) == len(block.Txs))
		for k := range got.Txs {
			if k < len(block.Txs) && got.Txs[k] != nil {
				verifAssert("C34/rebuilt-block-same-transaction-at-each-position", bytes.Equal(got.Txs[k].Hash(), block.Txs[k].Hash()))
			} else {
				verifAssert("C34/rebuilt-block-has-no-hole", false)
			}
		}
		verifAssert("C34/rebuilt-block-same-hash", bytes.Equal(got.Hash(cfg), block.Hash(cfg)))
	}

	p.handleBroadcastReceive(subscribeMsg{topic: psLtBlockTopic, value: lb, receiveFrom: "peerA", publisher: "peerB"})
	if complete {
		verifAssert("C34/complete-pool-rebuilds-at-once", len(cli.posted) == 1 && l.pendBlockList.Len() == 0)
		if len(cli.posted) == 1 {
			same(cli.posted[0])
		}
		return
	}
	verifAssert("C34/incomplete-pool-waits", len(cli.posted) == 0 && l.pendBlockList.Len() == 1)
	if verifChoose("then", 2) == 0 {
		// the missing units arrive in time
		for _, u := range units {
			put(u)
		}
		timedOut := l.buildPendList()
		verifAssert("C34/arrival-rebuilds", len(timedOut) == 0 && len(cli.posted) == 1 && l.pendBlockList.Len() == 0)
		if len(cli.posted) == 1 {
			same(cli.posted[0])
		}
	} else {
		// nothing arrives and the pending timeout (1 s) passes
		verifAdvanceClock(2)
		timedOut := l.buildPendList()
		verifAssert("C34/timeout-hands-the-block-back-for-a-full-request", len(timedOut) == 1 && len(cli.posted) == 0 && l.pendBlockList.Len() == 0)
		if len(timedOut) == 1 {
			verifAssert("C34/timeout-names-the-sender", timedOut[0].fromPeer == "peerA" && timedOut[0].block.GetHeight() == 10)
		}
	}
	verifObserve("posted", len(cli.posted))
}
