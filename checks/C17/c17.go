package PKGNAME

import (
	"bytes"

	"github.com/33cn/chain33/common"
	"github.com/33cn/chain33/common/crypto"
)

// ---- ideal signature scheme: sig = H(priv || msg), pub = priv ----
type verifC17Priv struct{ b []byte }
type verifC17Pub struct{ b []byte }
type verifC17Sig struct{ b []byte }

func (p verifC17Priv) Bytes() []byte { return p.b }
func (p verifC17Priv) Sign(msg []byte) crypto.Signature {
	return verifC17Sig{common.Sha256(append(append([]byte{}, p.b...), msg...))}
}
func (p verifC17Priv) PubKey() crypto.PubKey        { return verifC17Pub{p.b} }
func (p verifC17Priv) Equals(o crypto.PrivKey) bool { return bytes.Equal(p.b, o.Bytes()) }
func (p verifC17Pub) Bytes() []byte                 { return p.b }
func (p verifC17Pub) KeyString() string             { return string(p.b) }
func (p verifC17Pub) Equals(o crypto.PubKey) bool   { return bytes.Equal(p.b, o.Bytes()) }
func (p verifC17Pub) VerifyBytes(msg []byte, sig crypto.Signature) bool {
	return bytes.Equal(sig.Bytes(), common.Sha256(append(append([]byte{}, p.b...), msg...)))
}
func (s verifC17Sig) Bytes() []byte                  { return s.b }
func (s verifC17Sig) IsZero() bool                   { return len(s.b) == 0 }
func (s verifC17Sig) String() string                 { return "sig" }
func (s verifC17Sig) Equals(o crypto.Signature) bool { return bytes.Equal(s.b, o.Bytes()) }

type verifC17Driver struct{}

func (verifC17Driver) GenKey() (crypto.PrivKey, error) { return verifC17Priv{[]byte{1}}, nil }
func (verifC17Driver) SignatureFromBytes(b []byte) (crypto.Signature, error) {
	return verifC17Sig{b}, nil
}
func (verifC17Driver) PrivKeyFromBytes(b []byte) (crypto.PrivKey, error) { return verifC17Priv{b}, nil }
func (verifC17Driver) PubKeyFromBytes(b []byte) (crypto.PubKey, error)   { return verifC17Pub{b}, nil }
func (verifC17Driver) Validate(msg, pub, sig []byte) error {
	if (verifC17Pub{pub}).VerifyBytes(msg, verifC17Sig{sig}) {
		return nil
	}
	return crypto.ErrSign
}

const verifC17SigTy = 200

func verifC17Register() {
	if crypto.GetType("verifsig") != verifC17SigTy {
		crypto.Register("verifsig", verifC17Driver{}, crypto.WithRegOptionTypeID(verifC17SigTy))
	}
	crypto.Init(&crypto.Config{EnableHeight: map[string]int64{"verifsig": 0}}, nil)
}

// member k of a group: concrete distinct payload, symbolic fee / expire / nonce, execer on
// the main chain or (para) on the parachain "user.p.x."
func verifC17Member(k int, para bool) *Transaction {
	execer := []byte("none")
	if para {
		execer = []byte("user.p.x.none")
	}
	fee := verifI64("fee")
	verifAssume(fee >= 0 && fee < 1<<40)
	plen := 1
	if verifParam("bigpayload", 0) == 1 && verifChoose("big", 2) == 1 {
		plen = 960 // puts the encoded size near the 1000-byte fee step
	}
	payload := make([]byte, plen)
	payload[0] = byte(k)
	return &Transaction{Execer: execer, Payload: payload, Fee: fee, Expire: verifI64("expire"), Nonce: verifI64("nonce"), To: "to"}
}

func verifC17Group(n int) (*Transactions, int64, []verifC17Priv) {
	verifC17Register()
	para := verifChoose("para-group", 2) == 1
	var txs []*Transaction
	for k := 0; k < n; k++ {
		txs = append(txs, verifC17Member(k, para))
	}
	rate := verifI64("feerate")
	verifAssume(rate >= 0 && rate < 1<<30)
	g, err := CreateTxGroup(txs, rate)
	verifAssert("C17/create-succeeds", err == nil && g != nil)
	var privs []verifC17Priv
	for k := 0; k < n; k++ {
		p := verifC17Priv{[]byte{byte(10 + k)}}
		privs = append(privs, p)
		verifAssert("C17/sign-n", g.SignN(k, verifC17SigTy, p) == nil)
	}
	return g, rate, privs
}

func verifC17Cfg() *Chain33Config {
	return VerifNewConfigForks("verif", DefaultCoinPrecision, nil, map[string]int64{"ForkTxGroupPara": 0, "ForkBlockCheck": 0})
}

func verifC17OK(g *Transactions, cfg *Chain33Config, height, rate int64) bool {
	return g.Check(cfg, height, rate, 0) == nil && g.CheckSign(height)
}

// verifC17_valid: a group built by CreateTxGroup and signed member by member validates, with
// the documented fee layout.
func verifC17_valid() {
	n := 2 + verifChoose("members", verifParam("maxn", 3)-1)
	g, rate, _ := verifC17Group(n)
	cfg := verifC17Cfg()
	height := verifI64("height")
	verifAssume(height >= 0)
	verifAssert("C17/created-group-checks", g.Check(cfg, height, rate, 0) == nil)
	verifAssert("C17/created-group-signatures-verify", g.CheckSign(height))
	need := int64(0)
	for k, tx := range g.Txs {
		f, err := tx.GetRealFee(rate)
		verifAssert("C17/realfee", err == nil)
		need += f
		if k > 0 {
			verifAssert("C17/other-members-carry-no-fee", tx.Fee == 0)
		}
	}
	verifAssert("C17/first-member-pays-for-all", g.Txs[0].Fee >= need)
	verifObserve("fee0", g.Txs[0].Fee)
}

// verifC17_tamper: any structural change or field change of a valid signed group fails Check
// or CheckSign.
func verifC17_tamper() {
	n := verifParam("n", 3)
	g, rate, privs := verifC17Group(n)
	cfg := verifC17Cfg()
	height := verifI64("height")
	verifAssume(height >= 0)
	verifAssume(verifC17OK(g, cfg, height, rate))
	txs := g.Txs
	alt := &Transactions{}
	switch verifChoose("tamper", 6) {
	case 0: // reorder: swap two members
		i := verifChoose("i", n)
		j := verifChoose("j", n)
		verifAssume(i < j)
		alt.Txs = append([]*Transaction{}, txs...)
		alt.Txs[i], alt.Txs[j] = alt.Txs[j], alt.Txs[i]
	case 1: // drop a member
		i := verifChoose("i", n)
		for k, tx := range txs {
			if k != i {
				alt.Txs = append(alt.Txs, tx)
			}
		}
	case 2: // add a member: a copy of an existing one, or a fresh signed transaction, anywhere
		i := verifChoose("at", n+1)
		var extra *Transaction
		if verifChoose("extra-kind", 2) == 0 {
			extra = CloneTx(txs[verifChoose("copy-of", n)])
		} else {
			extra = verifC17Member(99, false)
			extra.Fee = 0
			extra.GroupCount = int32(n)
			extra.Header = txs[0].Header
			if i < n {
				extra.Next = txs[i].Hash()
			}
			extra.Sign(verifC17SigTy, privs[0])
		}
		alt.Txs = append(alt.Txs, txs[:i]...)
		alt.Txs = append(alt.Txs, extra)
		alt.Txs = append(alt.Txs, txs[i:]...)
	case 3: // substitute a member by a different transaction carrying the same group fields
		i := verifChoose("i", n)
		sub := verifC17Member(77, false)
		sub.Fee, sub.GroupCount, sub.Header, sub.Next = txs[i].Fee, txs[i].GroupCount, txs[i].Header, txs[i].Next
		sub.Sign(verifC17SigTy, privs[i])
		alt.Txs = append([]*Transaction{}, txs...)
		alt.Txs[i] = sub
	case 4: // alter one field of one member (signature kept)
		i := verifChoose("i", n)
		m := txs[i].Clone()
		switch verifChoose("field", 9) {
		case 0:
			m.Fee = verifI64("alt.fee")
			verifAssume(m.Fee != txs[i].Fee)
		case 1:
			m.Expire = verifI64("alt.expire")
			verifAssume(m.Expire != txs[i].Expire)
		case 2:
			m.Nonce = verifI64("alt.nonce")
			verifAssume(m.Nonce != txs[i].Nonce)
		case 3:
			m.Payload = verifBytes("alt.payload", 1)
			verifAssume(!bytes.Equal(m.Payload, txs[i].Payload))
		case 4:
			m.To = "other"
		case 5:
			m.GroupCount = verifI32("alt.groupcount")
			verifAssume(m.GroupCount != txs[i].GroupCount)
		case 6:
			m.Next = verifBytes("alt.next", 32)
			verifAssume(!bytes.Equal(m.Next, txs[i].Next))
		case 7:
			m.Header = verifBytes("alt.header", 32)
			verifAssume(!bytes.Equal(m.Header, txs[i].Header))
		case 8:
			m.Execer = []byte("user.p.y.none")
		}
		alt.Txs = append([]*Transaction{}, txs...)
		alt.Txs[i] = m
	case 5: // alter a field and re-sign that member with its own key (other members untouched)
		i := verifChoose("i", n)
		m := txs[i].Clone()
		switch verifChoose("field", 3) {
		case 0:
			m.Expire = verifI64("alt.expire")
			verifAssume(m.Expire != txs[i].Expire)
		case 1:
			m.Nonce = verifI64("alt.nonce")
			verifAssume(m.Nonce != txs[i].Nonce)
		case 2:
			m.Payload = verifBytes("alt.payload", 1)
			verifAssume(!bytes.Equal(m.Payload, txs[i].Payload))
		}
		m.Sign(verifC17SigTy, privs[i])
		alt.Txs = append([]*Transaction{}, txs...)
		alt.Txs[i] = m
	}
	verifAssert("C17/tampered-group-rejected", !verifC17OK(alt, cfg, height, rate))
}

// verifC17_fee: a consistently linked group whose first member underpays, or whose other
// members carry a fee, is rejected.
func verifC17_fee() {
	n := verifParam("n", 2)
	g, rate, _ := verifC17Group(n)
	cfg := verifC17Cfg()
	height := verifI64("height")
	verifAssume(height >= 0)
	need := int64(0)
	for _, tx := range g.Txs {
		f, _ := tx.GetRealFee(rate)
		need += f
	}
	if verifChoose("case", 2) == 0 {
		g.Txs[0].Fee = verifI64("low-fee")
		verifAssume(g.Txs[0].Fee < need)
	} else {
		i := 1 + verifChoose("i", n-1)
		g.Txs[i].Fee = verifI64("member-fee")
		verifAssume(g.Txs[i].Fee != 0)
	}
	g.RebuiltGroup()
	verifAssert("C17/underpaid-or-fee-carrying-group-rejected", g.Check(cfg, height, rate, 0) != nil)
}
