package PKGNAME

import (
	"errors"
	"time"

	"github.com/33cn/chain33/client"
	"github.com/33cn/chain33/common/address"
	"github.com/33cn/chain33/queue"
	"github.com/33cn/chain33/types"
)

var verifC22ErrAddr = errors.New("verif: address does not start with A")

// model address driver: valid addresses start with 'A'; address of a key = "A" + key
type verifC22Drv struct{}

func (verifC22Drv) PubKeyToAddr(pubKey []byte) string { return "A" + string(pubKey) }
func (verifC22Drv) ValidateAddr(addr string) error {
	if len(addr) > 0 && addr[0] == 'A' {
		return nil
	}
	return verifC22ErrAddr
}
func (verifC22Drv) GetName() string                        { return "verifc22" }
func (verifC22Drv) FromString(addr string) ([]byte, error) { return []byte(addr), nil }
func (verifC22Drv) ToString(addr []byte) string            { return string(addr) }
func (verifC22Drv) FormatAddr(addr string) string          { return addr }

type verifC22Client struct {
	queue.Client
	cfg *types.Chain33Config
}

func (c *verifC22Client) GetConfig() *types.Chain33Config { return c.cfg }

type verifC22API struct {
	client.QueueProtocolAPI
	cfg *types.Chain33Config
}

func (a *verifC22API) GetConfig() *types.Chain33Config { return a.cfg }

// queue stub: arbitrary pool load (entries and bytes) for the tiered fee
type verifC22Queue struct {
	size  int
	bytes int64
}

func (q *verifC22Queue) Exist(hash string) bool                  { return false }
func (q *verifC22Queue) GetItem(hash string) (*Item, error)      { return nil, types.ErrNotFound }
func (q *verifC22Queue) Push(tx *Item) error                     { return nil }
func (q *verifC22Queue) Remove(hash string) error                { return nil }
func (q *verifC22Queue) Size() int                               { return q.size }
func (q *verifC22Queue) Walk(count int, cb func(tx *Item) bool)  {}
func (q *verifC22Queue) GetProperFee() int64                     { return 0 }
func (q *verifC22Queue) GetCacheBytes() int64                    { return q.bytes }

type verifC22Env struct {
	mem                 *Mempool
	cfg                 *types.Chain33Config
	height, blocktime   int64
	now                 int64
	minRate, maxRate    int64
	levelFee            bool
	maxPerAccount       int64
	maxTxNumber, maxFee int64
	poolSize            int
	poolBytes           int64
}

func verifC22Setup() *verifC22Env {
	e := &verifC22Env{}
	address.VerifSetDriver(0, verifC22Drv{}, 0)
	address.VerifPurgeCheckCache()
	e.cfg = types.VerifNewConfigForks("verif", types.DefaultCoinPrecision, nil, map[string]int64{"ForkBlockCheck": 0})
	e.maxTxNumber = int64(verifParam("maxtxnumber", 1000))
	types.VerifSetMver(e.cfg, "mver.consensus.maxTxNumber", e.maxTxNumber)
	e.maxFee = verifI64("cfg.maxTxFee")
	verifAssume(e.maxFee >= 0)
	types.VerifSetChainConfig(e.cfg, "MaxTxFee", e.maxFee)
	e.minRate, e.maxRate = verifI64("cfg.minTxFeeRate"), verifI64("cfg.maxTxFeeRate")
	verifAssume(e.minRate >= 0 && e.minRate < 1<<30 && e.maxRate >= 0 && e.maxRate < 1<<40)
	e.levelFee = verifChoose("cfg.isLevelFee", 2) == 1
	e.maxPerAccount = verifI64("cfg.maxTxNumPerAccount")
	verifAssume(e.maxPerAccount >= 0 && e.maxPerAccount < 1000)
	e.poolSize = int(verifI32("pool.size"))
	e.poolBytes = verifI64("pool.bytes")
	verifAssume(e.poolSize >= 0 && e.poolSize < 1<<20 && e.poolBytes >= 0 && e.poolBytes < 1<<40)
	verifClockSettle()
	e.now = types.Now().Unix()
	e.height = verifI64("head.height")
	btd := verifI64("head.blocktime-minus-now")
	verifAssume(btd > -1500000000 && btd < 1<<33)
	e.blocktime = e.now + btd
	verifAssume(e.height >= 0 && e.height < 1<<40)
	mem := &Mempool{client: &verifC22Client{cfg: e.cfg}, api: &verifC22API{cfg: e.cfg},
		cfg: &types.Mempool{MinTxFeeRate: e.minRate, MaxTxFeeRate: e.maxRate, IsLevelFee: e.levelFee, MaxTxNumPerAccount: e.maxPerAccount}}
	mem.cache = newCache(e.maxPerAccount, 10, 100)
	mem.cache.SetQueueCache(&verifC22Queue{size: e.poolSize, bytes: e.poolBytes})
	mem.header = &types.Header{Height: e.height, BlockTime: e.blocktime}
	mem.currHeight = e.height
	e.mem = mem
	return e
}

// symbolic expire: height regime / never (<= ExpireBound) or a time relative to the clock
func verifC22Expire(e *verifC22Env) int64 {
	if verifChoose("expire.regime", 2) == 0 {
		x := verifI64("expire.height")
		verifAssume(x <= types.ExpireBound)
		return x
	}
	d := verifI64("expire.minus-now")
	verifAssume(d > -500000000 && d < 1<<33) // now + d > ExpireBound for every clock after 2017
	return e.now + d
}

func verifC22Expired(e *verifC22Env, expire int64) bool {
	if expire == 0 {
		return false
	}
	if expire <= types.ExpireBound {
		return expire <= e.height+1
	}
	return expire <= e.blocktime || expire < e.now+60
}

// tiered rate as documented: x100 at 1/20 block bytes or half the block's transaction
// count, x10 at 1/100 bytes or a tenth of the count, capped by MaxTxFeeRate
func verifC22LevelRate(e *verifC22Env) int64 {
	rate := e.minRate
	switch {
	case e.poolBytes >= int64(types.MaxBlockSize/20) || int64(e.poolSize) >= e.maxTxNumber/2:
		rate = 100 * e.minRate
	case e.poolBytes >= int64(types.MaxBlockSize/100) || int64(e.poolSize) >= e.maxTxNumber/10:
		rate = 10 * e.minRate
	}
	if rate > e.maxRate {
		rate = e.maxRate
	}
	return rate
}

// verifC22_single: checkTxs on one transaction admits it iff fee (plain and tiered), recipient
// address, per-sender limit and next-block expiry all allow it.
func verifC22_single() {
	e := verifC22Setup()
	mem := e.mem
	// the sender already has k transactions in the pool
	k := verifChoose("sender.pooled", 3)
	verifAssume(int64(k) <= e.maxPerAccount)
	sender := []byte{'s'}
	for j := 0; j < k; j++ {
		old := &types.Transaction{Execer: []byte("none"), Payload: []byte{byte(100 + j)}, Signature: &types.Signature{Ty: 1, Pubkey: sender}}
		verifAssert("C22/setup-index-push", mem.cache.AccountTxIndex.Push(old, string(old.Hash())) == nil)
	}
	to := string(verifBytes("to", 1+verifChoose("to.len", 2)))
	tx := &types.Transaction{Execer: []byte("none"), Payload: []byte{1}, Fee: verifI64("fee"), Expire: verifC22Expire(e), To: to,
		Nonce: verifI64("nonce"), Signature: &types.Signature{Ty: 1, Pubkey: sender, Signature: []byte{1}}}
	verifAssume(tx.Fee >= 0)

	msg := mem.checkTxs(&queue.Message{Data: tx})
	admitted := msg.Err() == nil

	feeOK := e.minRate == 0 || tx.Fee >= e.minRate // size < 1000 bytes: one fee unit
	tooHigh := e.minRate != 0 && e.maxFee > 0 && tx.Fee > e.maxFee
	levelOK := !e.levelFee || tx.Fee >= verifC22LevelRate(e)
	addrOK := to[0] == 'A'
	limitOK := int64(k) < e.maxPerAccount
	expiryOK := !verifC22Expired(e, tx.Expire)
	want := feeOK && levelOK && addrOK && limitOK && expiryOK
	if admitted {
		verifAssert("C22/admitted-only-if-acceptable", want)
	} else {
		verifAssert("C22/rejected-only-for-a-reason", !want || tooHigh)
	}
	verifObserve("admitted", admitted)
}

// verifC22_group: a two-member group is admitted only if every member passes the address,
// limit and expiry gates and the head pays the (tiered) fee of both.
func verifC22_group() {
	e := verifC22Setup()
	mem := e.mem
	senders := [][]byte{{'s'}, {'t'}}
	var txs []*types.Transaction
	var tos []string
	for j := 0; j < 2; j++ {
		to, expire := string(verifBytes("to", 1)), verifC22Expire(e)
		tos = append(tos, to)
		fee := verifI64("fee")
		verifAssume(fee >= 0 && fee < 1<<40)
		txs = append(txs, &types.Transaction{Execer: []byte("none"), Payload: []byte{byte(j)}, Fee: fee, Expire: expire, To: to,
			Nonce: verifI64("nonce")})
	}
	g, err := types.CreateTxGroup(txs, e.minRate)
	verifAssume(err == nil)
	for j := range g.Txs {
		g.Txs[j].Signature = &types.Signature{Ty: 1, Pubkey: senders[j], Signature: []byte{1}}
	}
	head := g.Tx()
	msg := mem.checkTxs(&queue.Message{Data: head})
	admitted := msg.Err() == nil
	if admitted {
		for j := range txs {
			verifAssert("C22/group-member-address-valid", tos[j][0] == 'A')
			verifAssert("C22/group-member-not-expired", !verifC22Expired(e, txs[j].Expire))
		}
		verifAssert("C22/group-sender-below-limit", e.maxPerAccount > 0)
		if e.levelFee {
			verifAssert("C22/group-pays-tiered-fee", g.Txs[0].Fee >= 2*verifC22LevelRate(e))
		}
		verifAssert("C22/group-pays-minimum-fee", g.Txs[0].Fee >= 2*e.minRate)
	}
	verifObserve("admitted", admitted)
}

var _ = time.Second
