package PKGNAME

import (
	"github.com/33cn/chain33/queue"
	"github.com/33cn/chain33/types"
)

type verifClient struct {
	queue.Client
	cfg *types.Chain33Config
}

func (c *verifClient) GetConfig() *types.Chain33Config { return c.cfg }

func verifC30Config(maxTx int64) *types.Chain33Config {
	cfg := types.VerifNewConfigForks("verif", types.DefaultCoinPrecision, nil, map[string]int64{})
	types.VerifSetMver(cfg, "mver.consensus.maxTxNumber", maxTx)
	types.VerifSetMver(cfg, "mver.consensus.powLimitBits", int64(0))
	return cfg
}

var verifC30Hdr = []byte{0, 1, 2, 3, 4, 5, 6, 7, 8, 9, 10, 11, 12, 13, 14, 15, 16, 17, 18, 19, 20, 21, 22, 23, 24, 25, 26, 27, 28, 29, 30, 31}

// units: 0 = single tx, 2 / 3 = group of that many members
func verifC30Layout(maxUnits int) []int {
	n := 1 + verifChoose("units", maxUnits)
	var units []int
	for i := 0; i < n; i++ {
		switch verifChoose("unit", 3) {
		case 0:
			units = append(units, 1)
		case 1:
			units = append(units, 2)
		case 2:
			units = append(units, 3)
		}
	}
	return units
}

func verifC30Tx(id int, groupCount int32) *types.Transaction {
	tx := &types.Transaction{Execer: []byte("none"), Payload: []byte{byte(id)}, Nonce: int64(id), To: "x", GroupCount: groupCount}
	if groupCount > 0 {
		tx.Header = verifC30Hdr // expanded group member: header is the group hash
	}
	return tx
}

// verifC30_checktxexpire: dropping expired transactions removes whole groups, keeps
// everything else, in order.
func verifC30_checktxexpire() {
	cfg := verifC30Config(1000)
	bc := &BaseClient{}
	bc.client = &verifClient{cfg: cfg}
	units := verifC30Layout(verifParam("units", 3))
	var txs []*types.Transaction
	var unitOf []int
	id := 0
	for u, sz := range units {
		for m := 0; m < sz; m++ {
			gc := int32(0)
			if sz > 1 {
				gc = int32(sz)
			}
			tx := verifC30Tx(id, gc)
			tx.Expire = verifI64("expire")
			if verifParam("height_regime_only", 0) == 1 {
				verifAssume(tx.Expire >= 0 && tx.Expire <= types.ExpireBound)
			}
			txs = append(txs, tx)
			unitOf = append(unitOf, u)
			id++
		}
	}
	verifAssume(len(txs) <= verifParam("max_txs", 9))
	height := verifI64("height")
	blocktime := verifI64("blocktime")
	verifAssume(height > 0 && blocktime > 0)
	// reference: which units contain an expired member
	expiredUnit := make([]bool, len(units))
	for i, tx := range txs {
		e := false
		switch {
		case tx.Expire == 0:
		case tx.Expire <= types.ExpireBound:
			e = tx.Expire <= height
		default:
			e = tx.Expire <= blocktime // tx-height mode is disabled in this configuration
		}
		if e {
			expiredUnit[unitOf[i]] = true
		}
	}
	var want []*types.Transaction
	for i, tx := range txs {
		if !expiredUnit[unitOf[i]] {
			want = append(want, tx)
		}
	}
	orig := append([]*types.Transaction(nil), txs...)
	_ = orig
	got := bc.CheckTxExpire(txs, height, blocktime)
	verifAssert("C30/expire-result-length", len(got) == len(want))
	for i := range got {
		if i < len(want) {
			verifAssert("C30/expire-keeps-order-and-whole-groups", got[i] == want[i])
		}
	}
}

// verifC30_addtxs: block assembly respects the count limit, never splits a group, keeps
// order.
func verifC30_addtxs() {
	maxTx := int64(1 + verifChoose("maxtx", verifParam("maxtx", 6)))
	cfg := verifC30Config(maxTx)
	bc := &BaseClient{}
	bc.client = &verifClient{cfg: cfg}
	block := &types.Block{Height: 10}
	pre := verifChoose("prefilled", 2)
	for i := 0; i < pre; i++ {
		block.Txs = append(block.Txs, verifC30Tx(100+i, 0))
	}
	units := verifC30Layout(verifParam("units", 3))
	var pool []*types.Transaction // what the mempool hands over: singles and group heads
	var members [][]*types.Transaction
	id := 0
	for _, sz := range units {
		if sz == 1 {
			tx := verifC30Tx(id, 0)
			id++
			pool = append(pool, tx)
			members = append(members, []*types.Transaction{tx})
			continue
		}
		g := &types.Transactions{}
		for m := 0; m < sz; m++ {
			g.Txs = append(g.Txs, verifC30Tx(id, int32(sz)))
			id++
		}
		pool = append(pool, g.Tx())
		members = append(members, g.Txs)
	}
	added := bc.AddTxsToBlock(block, pool)
	verifAssert("C30/count-limit", int64(len(block.Txs)) <= maxTx || len(added) == 0)
	verifAssert("C30/block-holds-added", len(block.Txs) == pre+len(added))
	// added is a prefix of the units, each unit whole
	pos := 0
	for u := range members {
		if pos >= len(added) {
			break
		}
		verifAssert("C30/group-whole", pos+len(members[u]) <= len(added))
		for m := range members[u] {
			if pos+m < len(added) {
				a, b := added[pos+m], members[u][m]
				verifAssert("C30/order-and-identity", a.Nonce == b.Nonce && a.GroupCount == b.GroupCount)
			}
		}
		pos += len(members[u])
	}
	verifAssert("C30/nothing-else-added", pos == len(added))
	// maximality: the next unit did not fit
	total := pre
	nfit := 0
	for u := range members {
		if int64(total+len(members[u])) > maxTx {
			break
		}
		total += len(members[u])
		nfit += len(members[u])
	}
	verifAssert("C30/takes-all-that-fit-in-order", len(added) == nfit)
}
