package PKGNAME

import (
	"bytes"
	"encoding/binary"

	dbm "github.com/33cn/chain33/common/db"
)

// engine-only replacements of the index-key formatters (decimal formatting of a symbolic
// height): an injective encoding; the real formatters are the subject of C05's codec entry
func verifC05GenLeafCountKey(key, hash []byte, height int64, hashLen int) []byte {
	var h [8]byte
	binary.BigEndian.PutUint64(h[:], uint64(height))
	return append(append(append([]byte(leafKeyCountPrefix), key...), h[:]...), hash...)
}
func verifC05GenOldLeafCountKey(key, hash []byte, height int64, hashLen int) []byte {
	var h [8]byte
	binary.BigEndian.PutUint64(h[:], uint64(height))
	return append(append(append([]byte(oldLeafKeyCountPrefix), key...), h[:]...), hash...)
}

type verifC05DB struct {
	dbm.DB
}

func (d *verifC05DB) Get(key []byte) ([]byte, error) { return nil, dbm.ErrNotFoundInDb }

type verifC05Batch struct {
	dbm.Batch
	deleted [][]byte
}

func (b *verifC05Batch) Set(key, value []byte) {}
func (b *verifC05Batch) Delete(key []byte)     { b.deleted = append(b.deleted, append([]byte(nil), key...)) }
func (b *verifC05Batch) Write() error          { return nil }
func (b *verifC05Batch) ValueSize() int        { return 0 }
func (b *verifC05Batch) ValueLen() int         { return 0 }
func (b *verifC05Batch) Reset()                {}

// verifC05_deletenode: the two deletion passes over the version index of one key (versions
// newest first, as the reverse scan collects them) never delete the newest version's leaf,
// and delete an older leaf only when it is at least PruneHeight below the current height and
// strictly older than the newest one.
func verifC05_deletenode() {
	n := 1 + verifChoose("versions", verifParam("maxversions", 3))
	cur := verifI64("current-height")
	prune := verifI32("prune-height")
	verifAssume(cur >= 0 && cur < 1<<40 && prune > 0 && prune < 1<<20)
	var vals []hashData
	prev := cur
	for k := 0; k < n; k++ {
		h := verifI64("version.height")
		verifAssume(h >= 0 && h <= prev)
		prev = h
		hash := make([]byte, 32)
		hash[0] = byte(k + 1)
		vals = append(vals, hashData{height: h, hash: hash})
	}
	key := []byte("k")
	second := verifChoose("pass", 2) == 1
	batch := &verifC05Batch{}
	mp := map[string][]hashData{string(key): append([]hashData(nil), vals...)}
	cfg := &TreeConfig{EnableMavlPrefix: true, EnableMavlPrune: true, PruneHeight: prune}
	if second {
		deleteOldNode(&verifC05DB{}, mp, cur, batch, cfg)
	} else {
		deleteNode(&verifC05DB{}, mp, cur, batch, cfg)
	}
	deletedLeaf := func(k int) bool {
		for _, d := range batch.deleted {
			if bytes.Equal(d, vals[k].hash) {
				return true
			}
		}
		return false
	}
	verifAssert("C05/newest-version-leaf-never-deleted", !deletedLeaf(0))
	for k := 1; k < n; k++ {
		if deletedLeaf(k) {
			verifAssert("C05/deleted-leaf-is-old-enough", cur >= vals[k].height+int64(prune))
			verifAssert("C05/deleted-leaf-is-superseded", vals[k].height < vals[0].height)
		}
	}
	verifObserve("deleted", len(batch.deleted))
}
