package types

// VerifNewConfig builds a Chain33Config directly (no toml parsing): main chain, coins/bty.
func VerifNewConfig(precision int64, minerExecs []string) *Chain33Config {
	return &Chain33Config{
		title:          "verif",
		coinExec:       "coins",
		coinSymbol:     "bty",
		coinPrecision:  precision,
		tokenPrecision: precision,
		minerExecs:     minerExecs,
		chainConfig:    map[string]interface{}{},
		mcfg:           &Config{},
	}
}
