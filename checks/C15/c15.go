package PKGNAME

import (
	"github.com/33cn/chain33/common/address"
	_ "github.com/33cn/chain33/system/address/btc"
	_ "github.com/33cn/chain33/system/address/eth"
	"github.com/33cn/chain33/types"
)

// model KV store with a durable-write log
type verifKV struct {
	m   map[string][]byte
	log []string
}

func (k *verifKV) Get(key []byte) ([]byte, error) {
	v, ok := k.m[string(key)]
	if !ok {
		return nil, types.ErrNotFound
	}
	return v, nil
}
func (k *verifKV) Set(key []byte, value []byte) error {
	k.m[string(key)] = value
	k.log = append(k.log, string(key))
	return nil
}
func (k *verifKV) Begin()        {}
func (k *verifKV) Commit() error { return nil }
func (k *verifKV) Rollback()     {}

const (
	verifU0   = "14KEKbYtKKQm4wMthSK9J4La4nAiidGozt"
	verifU1   = "1EbDHAXpoiewjPLX9uqoz38HsKqMXayZrF"
	verifHexL = "0xd83b69c56834e85e023b1738e69bc2f0dadd3d0a"
	verifHexU = "0xD83B69C56834E85E023B1738E69BC2F0DADD3D0A"
)

type verifC15World struct {
	acc     *DB
	kv      *verifKV
	users   []string   // canonical spelling of each user (index = logical user)
	spell   []string   // every spelling offered to operations
	spellOf []int      // logical account index of each spelling (users first, then execs)
	execs   []string   // executor addresses
	nacc    int        // logical main accounts: users + execs
	mainBal []int64    // by logical account
	mainFrz []int64
	subBal  [][]int64 // [user][exec]
	subFrz  [][]int64
	supply  int64
}

func (w *verifC15World) canon(k int) string {
	if k < len(w.users) {
		return w.users[k]
	}
	return w.execs[k-len(w.users)]
}

func verifC15Setup() *verifC15World {
	cfg := types.VerifNewConfig(types.DefaultCoinPrecision, []string{"ticket"})
	w := &verifC15World{kv: &verifKV{m: map[string][]byte{}}}
	w.acc = NewCoinsAccount(cfg)
	w.acc.SetDB(w.kv)
	w.users = []string{verifU0, verifHexL}
	if verifParam("three_users", 0) == 1 {
		w.users = []string{verifU0, verifU1, verifHexL}
	}
	w.execs = []string{address.ExecAddress("ticket"), address.ExecAddress("token")}
	w.spell = []string{verifU0, verifHexL, verifHexU, w.execs[0], w.execs[1]}
	w.spellOf = []int{0, 1, 1, 2, 3}
	if len(w.users) == 3 {
		w.spell = []string{verifU0, verifU1, verifHexL, verifHexU, w.execs[0], w.execs[1]}
		w.spellOf = []int{0, 1, 2, 2, 3, 4}
	}
	w.nacc = len(w.users) + len(w.execs)
	// arbitrary pre-state satisfying the representation invariant J
	w.mainBal = make([]int64, w.nacc)
	w.mainFrz = make([]int64, w.nacc)
	for k := 0; k < w.nacc; k++ {
		w.mainBal[k] = verifI64("balance")
		verifAssume(w.mainBal[k] >= 0 && w.mainBal[k] <= types.MaxTokenBalance)
		w.mainFrz[k] = 0
		w.acc.SaveAccount(&types.Account{Addr: w.canon(k), Balance: w.mainBal[k], Frozen: w.mainFrz[k]})
	}
	w.subBal = make([][]int64, len(w.users))
	w.subFrz = make([][]int64, len(w.users))
	for e := range w.execs {
		var sum int64
		for u := range w.users {
			if e == 0 {
				w.subBal[u] = make([]int64, len(w.execs))
				w.subFrz[u] = make([]int64, len(w.execs))
			}
			b, f := verifI64("execbalance"), verifI64("execfrozen")
			verifAssume(b >= 0 && b <= types.MaxTokenBalance && f >= 0 && f <= types.MaxTokenBalance)
			verifAssume(sum+b >= sum && sum+b+f >= sum+b && sum+b+f <= types.MaxTokenBalance)
			sum += b + f
			w.subBal[u][e], w.subFrz[u][e] = b, f
			w.acc.SaveExecAccount(w.execs[e], &types.Account{Addr: w.users[u], Balance: b, Frozen: f})
		}
		// J: the executor address's own balance equals the sum held under it
		verifAssume(w.mainBal[len(w.users)+e] == sum)
	}
	// K: total supply fits the token balance limit (each asset's issue limit; for coins
	// MaxCoin*precision is far below it). Without K a plain transfer can exceed
	// MaxTokenBalance on the receiving side, which no real history reaches.
	var supply int64
	for k := 0; k < w.nacc; k++ {
		verifAssume(supply+w.mainBal[k] >= supply && supply+w.mainBal[k] <= types.MaxTokenBalance)
		supply += w.mainBal[k]
	}
	w.supply = supply
	w.kv.log = nil
	return w
}

// verifC15_step: one account operation with arbitrary arguments from an arbitrary state
// satisfying J and K; afterwards J holds again, supply changes only as the operation says,
// a failing operation writes nothing, and both spellings of the hex address hit one record.
func verifC15_step() {
	w := verifC15Setup()
	op := verifChoose("op", 13)
	from := verifChoose("from", len(w.spell))
	to := verifChoose("to", len(w.spell))
	ex := verifChoose("exec", len(w.execs))
	amount := verifI64("amount")
	fromS, toS, exS := w.spell[from], w.spell[to], w.execs[ex]
	isUser := func(k int) bool { return w.spellOf[k] < len(w.users) }
	// sane=false: an argument combination no dapp produces (an executor address in a user
	// role). It is still executed - a failing operation must change nothing for ANY
	// arguments - but the conservation invariants are only claimed for sane combinations.
	sane := true
	switch op {
	case 0, 5, 6:
		sane = isUser(from) && isUser(to)
	case 1, 2, 3, 4, 7, 8, 9:
		sane = isUser(from)
	case 10, 11:
		verifAssume(isUser(from)) // genesis grants come from the chain configuration
	}
	var err error
	var minted int64
	panicked := false
	func() {
		defer func() {
			// a panic inside an account operation aborts the transaction (the executor recovers
			// and rolls the state back); tolerated only outside the dapps' contract
			if !sane {
				if r := recover(); r != nil {
					panicked = true
				}
			}
		}()
		err, minted = verifC15Op(w.acc, op, fromS, toS, exS, amount)
	}()
	if panicked {
		verifReach("panic-under-insane-arguments")
		return
	}
	if minted > 0 {
		// issuing beyond the asset's limit is the caller's (dapp's) responsibility
		verifAssume(w.supply+minted >= w.supply && w.supply+minted <= types.MaxTokenBalance)
	}
	failed := err != nil
	verifObserve("op", op, from, to, ex, failed)
	verifC15Check(w, op, failed, sane, minted)
}

// verifC15Op performs operation op and returns its error and the supply change it stands for.
func verifC15Op(acc *DB, op int, fromS, toS, exS string, amount int64) (err error, minted int64) {
	switch op {
	case 0:
		_, err = acc.Transfer(fromS, toS, amount)
	case 1: // transfer into an executor
		_, err = acc.TransferToExec(fromS, exS, amount)
	case 2: // withdraw from an executor
		_, err = acc.TransferWithdraw(fromS, exS, amount)
	case 3:
		_, err = acc.ExecFrozen(fromS, exS, amount)
	case 4:
		_, err = acc.ExecActive(fromS, exS, amount)
	case 5:
		_, err = acc.ExecTransfer(fromS, toS, exS, amount)
	case 6:
		_, err = acc.ExecTransferFrozen(fromS, toS, exS, amount)
	case 7: // deposit: mint to the executor, frozen under addr
		_, err = acc.ExecDepositFrozen(fromS, exS, amount)
		minted = amount
	case 8:
		_, err = acc.Mint(fromS, amount)
		minted = amount
	case 9:
		_, err = acc.Burn(fromS, amount)
		minted = -amount
	case 10:
		verifAssume(amount >= 0) // genesis amounts come from chain configuration
		_, err = acc.GenesisInit(fromS, amount)
		minted = amount
	case 11:
		verifAssume(acc.CheckAmount(amount)) // a genesis grant into an executor is a valid amount
		_, err = acc.GenesisInitExec(fromS, amount, exS)
		minted = amount
	case 12:
		// issuing to an executor without crediting an account under it is only ever done as
		// the first half of ExecDepositFrozen; J is checked for op 7, not here
		_, err = acc.ExecIssueCoins(exS, amount)
		minted = amount
	}
	if err != nil {
		minted = 0
	}
	return
}

func verifC15Check(w *verifC15World, op int, failed, sane bool, minted int64) {
	acc := w.acc
	if failed {
		verifAssert("C15/error-writes-nothing", len(w.kv.log) == 0)
	}
	// read the state back through the public API
	var supplyBefore, supplyAfter int64
	newMain := make([]int64, w.nacc)
	var nonneg, bounded, unchanged []bool
	for k := 0; k < w.nacc; k++ {
		a := acc.LoadAccount(w.canon(k))
		newMain[k] = a.Balance
		nonneg = append(nonneg, a.Balance >= 0, a.Frozen >= 0)
		bounded = append(bounded, a.Balance <= types.MaxTokenBalance)
		supplyBefore += w.mainBal[k] + w.mainFrz[k]
		supplyAfter += a.Balance + a.Frozen
		unchanged = append(unchanged, a.Balance == w.mainBal[k], a.Frozen == w.mainFrz[k])
	}
	hl, hu := acc.LoadAccount(verifHexL), acc.LoadAccount(verifHexU)
	var heldOK, sameExec []bool
	for e := range w.execs {
		var sum int64
		for u := range w.users {
			a := acc.LoadExecAccount(w.users[u], w.execs[e])
			nonneg = append(nonneg, a.Balance >= 0, a.Frozen >= 0)
			bounded = append(bounded, a.Balance <= types.MaxTokenBalance, a.Frozen <= types.MaxTokenBalance)
			sum += a.Balance + a.Frozen
			unchanged = append(unchanged, a.Balance == w.subBal[u][e], a.Frozen == w.subFrz[u][e])
		}
		u2, l2 := acc.LoadExecAccount(verifHexU, w.execs[e]), acc.LoadExecAccount(verifHexL, w.execs[e])
		sameExec = append(sameExec, u2.Balance == l2.Balance, u2.Frozen == l2.Frozen)
		if op != 12 {
			heldOK = append(heldOK, newMain[len(w.users)+e] == sum)
		}
	}
	if failed {
		verifAssertAll("C15/error-changes-nothing", unchanged...)
	}
	verifAssertAll("C15/hex-case-same-account", hl.Balance == hu.Balance, hl.Frozen == hu.Frozen)
	verifAssertAll("C15/hex-case-same-exec-account", sameExec...)
	if !sane {
		verifReach("insane-arguments")
		return
	}
	verifAssertAll("C15/balances-nonnegative", nonneg...)
	verifAssertAll("C15/balances-bounded", bounded...)
	if len(heldOK) > 0 {
		verifAssertAll("C15/executor-balance-equals-held-sum", heldOK...)
	}
	verifAssert("C15/supply-changes-only-by-mint-burn", supplyAfter == supplyBefore+minted)
	verifAssert("C15/supply-within-limit", supplyAfter >= 0 && supplyAfter <= types.MaxTokenBalance)
}
