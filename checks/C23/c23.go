package PKGNAME

import (
	"time"

	"github.com/33cn/chain33/common/address"
	"github.com/33cn/chain33/queue"
	"github.com/33cn/chain33/system/crypto/secp256k1eth"
	"github.com/33cn/chain33/types"
)

// ideal address drivers: the address is the public key itself (injective)
type verifC23Drv struct{ name string }

func (d *verifC23Drv) PubKeyToAddr(pubKey []byte) string      { return d.name + ":" + string(pubKey) }
func (d *verifC23Drv) ValidateAddr(addr string) error         { return nil }
func (d *verifC23Drv) GetName() string                        { return d.name }
func (d *verifC23Drv) FromString(addr string) ([]byte, error) { return []byte(addr), nil }
func (d *verifC23Drv) ToString(addr []byte) string            { return string(addr) }
func (d *verifC23Drv) FormatAddr(addr string) string          { return addr }

// queue client stub: configuration and the rpc answer to EventGetEvmNonce
type verifC23Client struct {
	cfg    *types.Chain33Config
	nonces map[string]int64
	rpcOK  bool
	asked  *types.ReqEvmAccountNonce
}

func (c *verifC23Client) Send(msg *queue.Message, waitReply bool) error { return nil }
func (c *verifC23Client) SendTimeout(msg *queue.Message, waitReply bool, t time.Duration) error {
	return nil
}
func (c *verifC23Client) Wait(msg *queue.Message) (*queue.Message, error) {
	return c.WaitTimeout(msg, 0)
}
func (c *verifC23Client) WaitTimeout(msg *queue.Message, t time.Duration) (*queue.Message, error) {
	if !c.rpcOK {
		return nil, types.ErrTimeout
	}
	req := msg.Data.(*types.ReqEvmAccountNonce)
	return &queue.Message{Data: &types.EvmAccountNonce{Addr: req.Addr, Nonce: c.nonces[req.Addr]}}, nil
}
func (c *verifC23Client) Recv() chan *queue.Message         { return nil }
func (c *verifC23Client) Reply(msg *queue.Message)          {}
func (c *verifC23Client) Sub(topic string)                  {}
func (c *verifC23Client) Close()                            {}
func (c *verifC23Client) CloseQueue() (*types.Reply, error) { return nil, nil }
func (c *verifC23Client) NewMessage(topic string, ty int64, data interface{}) *queue.Message {
	return &queue.Message{Topic: topic, Ty: ty, Data: data}
}
func (c *verifC23Client) FreeMessage(msg ...*queue.Message) {}
func (c *verifC23Client) GetConfig() *types.Chain33Config   { return c.cfg }
func (c *verifC23Client) GetQueue() queue.Queue             { return nil }

// reference expiry for the *next* block (C28 regimes with TxHeight off) plus pool age
func verifC23Expired(expire, age, nextHeight, blocktime int64) bool {
	if age >= 600 {
		return true
	}
	if expire == 0 {
		return false
	}
	if expire <= types.ExpireBound {
		return expire <= nextHeight
	}
	return expire <= blocktime
}

// verifC23Run builds a pool of n transactions and queries it; what is symbolic is selected by
// the flags (path explosion otherwise):
//   kinds:   0 plain only, 1 plain / eth sender A, 2 plain / eth sender A / eth sender B, 3 eth sender A only
//   expiry:  symbolic expire and pool age per transaction (otherwise never expiring)
//   exclude: any subset of the pool is excluded by hash
//   counted: symbolic count in [0, n+1] (otherwise 0 = all)
func verifC23Run(n, kinds int, expiry, exclude, counted, rpcFail bool) {
	forkOn := verifChoose("ForkCheckEthTxSort", 2) == 1
	forkHeight := int64(1) << 40
	if forkOn {
		forkHeight = 0
	}
	cfg := types.VerifNewConfigForks("verif", types.DefaultCoinPrecision, nil, map[string]int64{"ForkCheckEthTxSort": forkHeight})
	address.VerifSetDriver(0, &verifC23Drv{"n"}, 0)
	address.VerifSetDriver(2, &verifC23Drv{"e"}, 0)
	ethTy := types.EncodeSignID(secp256k1eth.ID, 2)
	verifAssert("C23/setup-eth-sign-id", types.IsEthSignID(ethTy) && !types.IsEthSignID(1))

	client := &verifC23Client{cfg: cfg, nonces: map[string]int64{}, rpcOK: true}
	if rpcFail {
		client.rpcOK = verifChoose("rpc-answers", 2) == 1
	}
	mem := &Mempool{client: client, cfg: &types.Mempool{}}
	mem.cache = newCache(100, 100, 100)
	mem.cache.SetQueueCache(NewSimpleQueue(SubConfig{PoolCacheSize: 100}))
	height, blocktime := int64(10), int64(2000000000)
	if expiry {
		height, blocktime = verifI64("head.height"), verifI64("head.blocktime")
		verifAssume(height >= 0 && height < 1<<39 && blocktime >= 0)
	}
	mem.header = &types.Header{Height: height, BlockTime: blocktime}

	verifClockSettle()
	now := types.Now().Unix()
	type ptx struct {
		tx      *types.Transaction
		eth     bool
		sender  int
		nonce   int64
		age     int64
		hash    []byte
		exclude bool
	}
	var pool []*ptx
	maxNonce := verifParam("nonces", 3)
	for k := 0; k < n; k++ {
		p := &ptx{}
		switch kinds {
		case 1:
			p.eth = verifChoose("tx.eth", 2) == 1
		case 2:
			c := verifChoose("tx.kind", 3)
			p.eth, p.sender = c > 0, c/2
		case 3:
			p.eth = true
		}
		if p.eth {
			p.nonce = int64(verifChoose("tx.nonce", maxNonce))
		}
		ty := int32(1)
		if p.eth {
			ty = ethTy
		}
		p.tx = &types.Transaction{Execer: []byte("none"), Payload: []byte{byte(k)}, Nonce: p.nonce,
			Signature: &types.Signature{Ty: ty, Pubkey: []byte{byte('A' + p.sender)}}}
		if expiry {
			p.tx.Expire = verifI64("tx.expire")
		}
		p.hash = p.tx.Hash()
		if err := mem.cache.Push(p.tx); err != nil {
			verifAssert("C23/setup-push", false)
		}
		if expiry {
			p.age = verifI64("tx.age")
			verifAssume(p.age > -1000000 && p.age < 1000000)
		}
		item, _ := mem.cache.qcache.GetItem(string(p.hash))
		item.EnterTime = now - p.age
		if exclude {
			p.exclude = verifChoose("tx.excluded", 2) == 1
		}
		pool = append(pool, p)
	}
	// current nonces of the two eth senders
	cur := []int64{0, 0}
	if kinds > 0 {
		cur[0] = verifI64("cur-nonce-A")
		verifAssume(cur[0] >= 0 && cur[0] < int64(maxNonce))
	}
	if kinds == 2 {
		cur[1] = verifI64("cur-nonce-B")
		verifAssume(cur[1] >= 0 && cur[1] < int64(maxNonce))
	}
	client.nonces["e:A"], client.nonces["e:B"] = cur[0], cur[1]
	if !client.rpcOK {
		cur = []int64{0, 0}
	}

	count := int64(0)
	if counted {
		count = verifI64("count")
		verifAssume(count >= 0 && count <= int64(n)+1)
	}
	req := &types.TxHashList{Count: count, Hashes: [][]byte{[]byte("not-in-pool")}}
	for _, p := range pool {
		if p.exclude {
			req.Hashes = append(req.Hashes, p.hash)
		}
	}
	out := mem.getTxList(req)

	find := func(tx *types.Transaction) (*ptx, int) {
		for k, p := range pool {
			if p.tx == tx {
				return p, k
			}
		}
		return nil, -1
	}
	if count > 0 {
		verifAssert("C23/at-most-count", int64(len(out)) <= count)
	}
	lastPlain := -1
	next := []int64{cur[0], cur[1]}
	for i, tx := range out {
		p, idx := find(tx)
		verifAssert("C23/only-pool-transactions", p != nil)
		if p == nil {
			continue
		}
		for j := i + 1; j < len(out); j++ {
			verifAssert("C23/no-duplicates", out[j] != tx)
		}
		verifAssert("C23/none-excluded", !p.exclude)
		verifAssert("C23/none-expired", !verifC23Expired(tx.Expire, p.age, height+1, blocktime))
		if !p.eth {
			verifAssert("C23/plain-keep-arrival-order", idx > lastPlain)
			lastPlain = idx
		} else if forkOn {
			verifAssert("C23/eth-consecutive-nonces-from-current", p.nonce == next[p.sender])
			next[p.sender]++
		}
	}
	// completeness when the count does not limit the answer: every packable plain transaction
	// is returned, and (fork on) every eth transaction reachable by consecutive nonces
	if count == 0 || int64(len(out)) < count {
		for _, p := range pool {
			if !p.eth && !p.exclude && !verifC23Expired(p.tx.Expire, p.age, height+1, blocktime) {
				got := false
				for _, tx := range out {
					if tx == p.tx {
						got = true
					}
				}
				verifAssert("C23/packable-plain-returned", got)
			}
		}
	}
	verifObserve("len", len(out))
}

// verifC23_filter: count, exclusion and expiry (height / block time / pool age) over plain
// transactions.
func verifC23_filter() { verifC23Run(verifParam("txs", 2), 0, true, true, true, false) }

// verifC23_sort: plain and eth-signed transactions of two senders, nonce gaps and repeats,
// symbolic current nonces, rpc answering or timing out; nothing expires.
func verifC23_sort() { verifC23Run(verifParam("txs", 3), 2, false, false, false, true) }

// verifC23_mixed: eth-signed transactions of one sender that may expire or be excluded (gaps
// created by filtering), with a count limit.
func verifC23_mixed() { verifC23Run(verifParam("txs", 2), 3, true, true, true, false) }
