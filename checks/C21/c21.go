package PKGNAME

import (
	"bytes"

	_ "github.com/33cn/chain33/system/address/btc"
	"github.com/33cn/chain33/types"
)

var verifPubs = [][]byte{
	{2, 0x50, 0x4f, 0xa1, 0xc2, 0x8c, 0xaa, 0xf1, 0xd5, 0xa2, 0x0f, 0xef, 0xb8, 0x7c, 0x50, 0xa4, 0x97, 0x24, 0xff, 0x40, 0x1c, 0x21, 0xb9, 0x7a, 0x8f, 0x3e, 0x59, 0x53, 0x7e, 0x3d, 0x0a, 0x09, 0x31},
	{3, 0x11, 0x22, 0x33, 0x44, 0x55, 0x66, 0x77, 0x88, 0x99, 0xaa, 0xbb, 0xcc, 0xdd, 0xee, 0xff, 0x01, 0x02, 0x03, 0x04, 0x05, 0x06, 0x07, 0x08, 0x09, 0x0a, 0x0b, 0x0c, 0x0d, 0x0e, 0x0f, 0x10, 0x20},
}

type verifC21Pool struct {
	cache   *txCache
	txs     []*types.Transaction
	hashes  [][]byte
	sender  []int
	present []bool
	cap     int
	perAcc  int
}

func (p *verifC21Pool) check() {
	c := p.cache
	n := 0
	var fee, size int64
	perSender := make([]int, len(verifPubs))
	for i, tx := range p.txs {
		h := string(p.hashes[i])
		verifAssert("C21/exist-agrees", c.Exist(h) == p.present[i])
		if p.present[i] {
			n++
			fee += tx.Fee
			size += int64(types.Size(tx))
			perSender[p.sender[i]]++
			verifAssert("C21/lookup-by-hash", c.getTxByHash(h) == tx)
			verifAssert("C21/short-hash-lookup", c.GetSHashTxCache(types.CalcTxShortHash(p.hashes[i])) == tx)
		} else {
			verifAssert("C21/absent-not-in-short-hash", c.GetSHashTxCache(types.CalcTxShortHash(p.hashes[i])) == nil)
		}
	}
	verifAssert("C21/size", c.Size() == n)
	verifAssert("C21/capacity", c.Size() <= p.cap)
	verifAssert("C21/fee-total", c.TotalFee() == fee)
	verifAssert("C21/byte-size", c.qcache.GetCacheBytes() == size)
	for s := range verifPubs {
		addr := p.txs[0].From()
		for i := range p.txs {
			if p.sender[i] == s {
				addr = p.txs[i].From()
			}
		}
		verifAssert("C21/per-sender-index", c.TxNumOfAccount(addr) == perSender[s] || !verifC21HasSender(p, s))
		verifAssert("C21/per-sender-limit", perSender[s] <= p.perAcc)
	}
	// latest list: only pool members, no duplicates
	latest := c.GetLatestTx()
	for i, a := range latest {
		in := false
		for k, tx := range p.txs {
			if tx == a && p.present[k] {
				in = true
			}
		}
		verifAssert("C21/latest-only-pool-members", in)
		for j := i + 1; j < len(latest); j++ {
			verifAssert("C21/latest-no-duplicates", latest[j] != a)
		}
	}
	// walk yields each pool member exactly once
	seen := 0
	c.Walk(0, func(it *Item) bool {
		seen++
		return true
	})
	verifAssert("C21/walk-count", seen == n)
}

func verifC21HasSender(p *verifC21Pool, s int) bool {
	for i := range p.txs {
		if p.sender[i] == s {
			return true
		}
	}
	return false
}

// verifC21_cache: histories of submissions, removals, block removal and expiry sweeps over
// a small set of transactions; after every event all indexes agree with the pool content.
func verifC21_cache() {
	cfg := types.VerifNewConfigForks("verif", types.DefaultCoinPrecision, nil, map[string]int64{})
	p := &verifC21Pool{}
	// capacity and per-sender limit are symbolic (the solver splits on the comparisons)
	p.cap = verifInt("capacity")
	p.perAcc = verifInt("per-sender")
	verifAssume(p.cap >= 1 && p.cap <= 3 && p.perAcc >= 1 && p.perAcc <= 2)
	p.cache = newCache(int64(p.perAcc), 10, int64(p.cap))
	p.cache.SetQueueCache(NewSimpleQueue(SubConfig{PoolCacheSize: int64(p.cap), ProperFee: 100000}))
	ntx := verifParam("txs", 3)
	for i := 0; i < ntx; i++ {
		s := i / 2 // tx0, tx1: sender 0; tx2: sender 1
		tx := &types.Transaction{Execer: []byte("none"), Payload: []byte{byte(i)}, Nonce: int64(i + 1), To: "x",
			Fee: int64(100000 + 1000*i), Expire: int64(i) * 5, // 0 (never), 5, 10
			Signature: &types.Signature{Ty: types.SECP256K1, Pubkey: verifPubs[s], Signature: []byte{1}}}
		p.txs = append(p.txs, tx)
		p.hashes = append(p.hashes, tx.Hash())
		p.sender = append(p.sender, s)
		p.present = append(p.present, false)
	}
	// distinct short hashes (collisions of the 40-bit prefix are outside this check)
	for i := range p.txs {
		for j := i + 1; j < len(p.txs); j++ {
			verifAssume(!bytes.Equal(p.hashes[i][:5], p.hashes[j][:5]))
		}
	}
	nev := verifParam("events", 4)
	for ev := 0; ev < nev; ev++ {
		k := verifChoose("tx", ntx)
		switch verifChoose("event", 4) {
		case 0: // submission
			n, cnt := 0, 0
			for i := range p.txs {
				if p.present[i] {
					n++
					if p.sender[i] == p.sender[k] {
						cnt++
					}
				}
			}
			err := p.cache.Push(p.txs[k])
			ok := !p.present[k] && n < p.cap && cnt < p.perAcc
			verifAssert("C21/push-accepts-iff-room", (err == nil) == ok)
			if ok {
				p.present[k] = true
			}
		case 1: // explicit removal
			p.cache.Remove(string(p.hashes[k]))
			p.present[k] = false
		case 2: // block added: its transactions leave the pool
			k2 := (k + 1) % ntx
			p.cache.RemoveTxs([]string{string(p.hashes[k]), string(p.hashes[k2])})
			p.present[k], p.present[k2] = false, false
		case 3: // expiry sweep at a symbolic height
			h := int64(7 + 5*verifChoose("height", 2)) // 7: expires tx1; 12: expires tx1 and tx2
			p.cache.removeExpiredTx(cfg, h, 100)
			for i, tx := range p.txs {
				if p.present[i] && tx.Expire != 0 && tx.Expire <= h {
					p.present[i] = false
				}
			}
		}
		p.check()
	}
}
