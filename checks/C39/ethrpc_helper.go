package ethrpc

import ctypes "github.com/33cn/chain33/types"

// VerifCheckIP exposes the Ethereum-RPC IP gate to the verification harness.
func VerifCheckIP(cfg *ctypes.Chain33Config, addr string) bool {
	return (&httpServer{cfg: cfg}).checkIPWhitelist(addr)
}
