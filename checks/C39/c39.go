package PKGNAME

import (
	"encoding/base64"
	"net/http"

	"github.com/33cn/chain33/rpc/ethrpc"
	"github.com/33cn/chain33/types"
)

var verifIPs = []string{"1.2.3.4", "::ffff:1.2.3.4", "10.0.0.1", "127.0.0.1", "::1", "2001:db8::1", "bogus"}
var verifListEntries = []string{"*", "0.0.0.0", "1.2.3.4", "10.0.0.1"}

func verifC39List(name string) []string {
	n := verifChoose(name+".len", 3)
	var l []string
	for i := 0; i < n; i++ {
		l = append(l, verifListEntries[verifChoose(name, len(verifListEntries))])
	}
	return l
}

func verifC39Reset() {
	remoteIPWhitelist = make(map[string]bool)
	jrpcFuncWhitelist = make(map[string]bool)
	jrpcFuncBlacklist = make(map[string]bool)
}

// verifC39_ip: the IP gate admits a non-loopback client only when the configured whitelist
// (either key) says so, and the Ethereum RPC gate admits exactly the same clients whenever
// a non-empty whitelist is configured under either key.
func verifC39_ip() {
	verifC39Reset()
	cfg := &types.RPC{Whitelist: verifC39List("whitelist"), Whitlist: verifC39List("whitlist")}
	InitIPWhitelist(cfg)
	ip := verifIPs[verifChoose("client", len(verifIPs))]
	got := checkIPWhitelist(ip)
	// reference: effective list = Whitelist if non-empty else Whitlist; empty = loopback only
	eff := cfg.Whitelist
	if len(eff) == 0 {
		eff = cfg.Whitlist
	}
	loopback := ip == "127.0.0.1" || ip == "::1"
	canon := ip
	if ip == "::ffff:1.2.3.4" {
		canon = "1.2.3.4"
	}
	want := loopback
	wild := (len(cfg.Whitelist) == 1 && cfg.Whitelist[0] == "*") || (len(cfg.Whitlist) == 1 && cfg.Whitlist[0] == "*")
	if wild {
		want = true
	}
	for _, a := range eff {
		if a == "0.0.0.0" || a == canon {
			want = true
		}
	}
	if ip == "bogus" && !wild {
		ok0 := false
		for _, a := range eff {
			if a == "0.0.0.0" {
				ok0 = true
			}
		}
		want = ok0
	}
	verifAssert("C39/ip-gate-matches-configuration", got == want)
	if len(cfg.Whitelist) > 0 || len(cfg.Whitlist) > 0 {
		ccfg := types.VerifNewConfigForks("verif", types.DefaultCoinPrecision, nil, map[string]int64{})
		ccfg.GetModuleConfig().RPC = cfg
		verifAssert("C39/eth-rpc-admits-same-clients", ethrpc.VerifCheckIP(ccfg, ip) == got)
	}
}

// verifC39_method: a method runs only if whitelisted (or wildcard) and not blacklisted.
func verifC39_method() {
	verifC39Reset()
	names := []string{"*", "Chain33.Version", "Chain33.CloseQueue", "a"}
	pick := func(name string) []string {
		n := verifChoose(name+".len", 3)
		var l []string
		for i := 0; i < n; i++ {
			l = append(l, names[verifChoose(name, len(names))])
		}
		return l
	}
	cfg := &types.RPC{JrpcFuncWhitelist: pick("white"), JrpcFuncBlacklist: pick("black")}
	InitJrpcFuncWhitelist(cfg)
	InitJrpcFuncBlacklist(cfg)
	m := string(verifBytes("method", verifChoose("method.len", 3)))
	if verifChoose("known-method", 2) == 1 {
		m = names[1+verifChoose("which", 3)]
	}
	inList := func(l []string, s string) bool {
		for _, x := range l {
			if x == s {
				return true
			}
		}
		return false
	}
	wl := len(cfg.JrpcFuncWhitelist) == 0 || (len(cfg.JrpcFuncWhitelist) == 1 && cfg.JrpcFuncWhitelist[0] == "*") || inList(cfg.JrpcFuncWhitelist, "*") || inList(cfg.JrpcFuncWhitelist, m)
	bl := inList(cfg.JrpcFuncBlacklist, m) || (len(cfg.JrpcFuncBlacklist) == 0 && m == "CloseQueue")
	verifAssert("C39/whitelist-gate", checkJrpcFuncWhitelist(m) == wl)
	verifAssert("C39/blacklist-gate", checkJrpcFuncBlacklist(m) == bl)
}

// verifC39_basicauth: with credentials configured, only exactly "user:password" passes.
func verifC39_basicauth() {
	rpcCfg = &types.RPC{JrpcUserName: "u", JrpcUserPasswd: "p"}
	// configuration shapes: full, password containing ':', and the two half-configured forms
	// (only a user name, only a password), which still count as "authentication configured"
	switch verifChoose("auth-config", 4) {
	case 1:
		rpcCfg.JrpcUserPasswd = "p:x"
	case 2:
		rpcCfg.JrpcUserPasswd = ""
	case 3:
		rpcCfg.JrpcUserName = ""
	}
	n := verifChoose("cred.len", verifParam("maxcred", 5)+1)
	var cred []byte
	if verifParam("cred_symbolic", 0) == 1 {
		cred = verifBytes("cred", n)
		for _, b := range cred {
			verifAssume(b == 'u' || b == 'p' || b == ':' || b == 'x')
		}
	} else {
		// case split over the alphabet (the gate only distinguishes these characters)
		alphabet := []byte{'u', 'p', ':', 'x'}
		for i := 0; i < n; i++ {
			cred = append(cred, alphabet[verifChoose("cred", len(alphabet))])
		}
	}
	hdr := "Basic " + base64.StdEncoding.EncodeToString(cred)
	if verifChoose("scheme-missing", 4) == 0 {
		hdr = base64.StdEncoding.EncodeToString(cred)
	}
	r := &http.Request{Header: http.Header{"Authorization": []string{hdr}}}
	got := checkBasicAuth(r)
	want := string(cred) == rpcCfg.JrpcUserName+":"+rpcCfg.JrpcUserPasswd && len(hdr) > 6 && hdr[:6] == "Basic "
	verifAssert("C39/basic-auth-exact-credentials", got == want)
	verifAssert("C39/no-header-rejected", !checkBasicAuth(&http.Request{Header: http.Header{}}))
}
