package PKGNAME

import (
	"bytes"

	dbm "github.com/33cn/chain33/common/db"
	"github.com/33cn/chain33/types"
)

// row message: types.KeyValue{Key: primary, Value: indexed field}
type verifRowMeta struct {
	data *types.KeyValue
}

func (m *verifRowMeta) CreateRow() *Row { return &Row{Data: &types.KeyValue{}} }
func (m *verifRowMeta) SetPayload(data types.Message) error {
	if kv, ok := data.(*types.KeyValue); ok {
		m.data = kv
		return nil
	}
	return types.ErrTypeAsset
}
func (m *verifRowMeta) Get(key string) ([]byte, error) {
	switch key {
	case "k":
		return m.data.Key, nil
	case "v":
		return m.data.Value, nil
	}
	return nil, types.ErrNotFound
}

func verifC10Apply(db dbm.DB, kvs []*types.KeyValue) {
	for _, kv := range kvs {
		if kv.Value == nil {
			db.Delete(kv.Key)
		} else {
			db.Set(kv.Key, kv.Value)
		}
	}
}

type verifC10World struct {
	db    dbm.DB
	tab   *Table
	prim  [][]byte
	model map[int][]byte // primary index -> indexed value (present rows)
}

func (w *verifC10World) op(step int) {
	p := verifChoose("row", len(w.prim))
	v := []byte{verifU8("value")}
	row := &types.KeyValue{Key: w.prim[p], Value: v}
	_, present := w.model[p]
	switch verifChoose("op", 4) {
	case 0:
		err := w.tab.Add(row)
		if present {
			verifAssert("C10/add-fails-when-present", err != nil)
		} else {
			verifAssert("C10/add-ok-when-absent", err == nil)
			w.model[p] = v
		}
	case 1:
		err := w.tab.Replace(row)
		verifAssert("C10/replace-ok", err == nil)
		w.model[p] = v
	case 2:
		err := w.tab.Update(w.prim[p], row)
		if present {
			verifAssert("C10/update-ok-when-present", err == nil)
			w.model[p] = v
		} else {
			verifAssert("C10/update-fails-when-absent", err != nil)
		}
	case 3:
		err := w.tab.Del(w.prim[p])
		if present {
			verifAssert("C10/del-ok-when-present", err == nil)
			delete(w.model, p)
		} else {
			verifAssert("C10/del-fails-when-absent", err != nil)
		}
	}
}

func (w *verifC10World) saveAndCheck() {
	kvs, err := w.tab.Save()
	verifAssert("C10/save-ok", err == nil)
	verifC10Apply(w.db, kvs)
	// reads
	for p := range w.prim {
		r, err := w.tab.GetData(w.prim[p])
		if v, ok := w.model[p]; ok {
			verifAssert("C10/read-latest-row", err == nil && bytes.Equal(r.Data.(*types.KeyValue).Value, v))
		} else {
			verifAssert("C10/read-absent", err != nil)
		}
	}
	// the stored keys are exactly: one data key and one index entry per present row
	var want [][]byte
	for p := range w.prim {
		if v, ok := w.model[p]; ok {
			want = append(want, w.tab.getDataKey(w.prim[p]), w.tab.getIndexKey("v", v, w.prim[p]))
		}
	}
	n := 0
	it := w.db.Iterator(nil, types.EmptyValue, false)
	for it.Rewind(); it.Valid(); it.Next() {
		found := false
		for _, k := range want {
			if bytes.Equal(k, it.Key()) {
				found = true
			}
		}
		verifAssert("C10/no-stale-entry", found)
		n++
	}
	it.Close()
	verifAssert("C10/no-missing-entry", n == len(want))
	// index lookup by a symbolic value
	probe := []byte{verifU8("probe")}
	rows, err := w.tab.ListIndex("v", probe, nil, 0, dbm.ListASC)
	cnt := 0
	for p := range w.prim {
		if v, ok := w.model[p]; ok && bytes.Equal(v, probe) {
			cnt++
		}
	}
	if cnt == 0 {
		verifAssert("C10/index-lookup-empty", err != nil || len(rows) == 0)
	} else {
		verifAssert("C10/index-lookup-exact", err == nil && len(rows) == cnt)
		for _, r := range rows {
			verifAssert("C10/index-lookup-matches", bytes.Equal(r.Data.(*types.KeyValue).Value, probe))
		}
	}
}

// verifC10_table: rounds of add / replace / update / delete followed by Save; the table
// behaves like a map from primary key to row and the index has no stale or missing entry.
func verifC10_table() {
	mem, _ := dbm.NewGoMemDB("verif", "", 0)
	kvdb := dbm.NewKVDB(mem)
	tab, err := NewTable(&verifRowMeta{data: &types.KeyValue{}}, kvdb, &Option{Prefix: "LODB-verif", Name: "t", Primary: "k", Index: []string{"v"}})
	verifAssert("C10/newtable", err == nil)
	w := &verifC10World{db: mem, tab: tab, prim: [][]byte{[]byte("a"), []byte("b")}, model: map[int][]byte{}}
	rounds := verifParam("rounds", 2)
	ops := verifParam("ops", 2)
	for r := 0; r < rounds; r++ {
		n := ops
		if r > 0 {
			n = verifParam("ops_later", 1)
		}
		for s := 0; s < n; s++ {
			w.op(s)
		}
		w.saveAndCheck()
	}
}
