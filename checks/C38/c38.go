package PKGNAME

import (
	dbm "github.com/33cn/chain33/common/db"
	"github.com/33cn/chain33/types"
	wcom "github.com/33cn/chain33/wallet/common"
)

// database wrapper: every read made by an operation is a point at which a concurrent
// observer may look at the lock state; what it would see is recorded
type verifC38DB struct {
	dbm.DB
	w    *Wallet
	seen []bool // wallet appeared unlocked at a store read
}

func (d *verifC38DB) Get(key []byte) ([]byte, error) {
	if d.w != nil {
		d.seen = append(d.seen, !d.w.IsWalletLocked())
	}
	return d.DB.Get(key)
}

// engine-only replacements of the salted json password record (natively the real one runs)
var verifC38PwRecord string

func verifC38SetPasswordHash(store *wcom.Store, password string, batch dbm.Batch) error {
	verifC38PwRecord = password
	return nil
}
func verifC38VerifyPasswordHash(store *wcom.Store, password string) bool {
	store.GetDB().Get(wcom.CalcPasswordHash()) // the real function reads the record here
	return verifC38PwRecord == password
}
func verifC38SetEncryptionFlag(store *wcom.Store, batch dbm.Batch) error { return nil }

// verifC38_lock: histories of unlock (right/wrong password, timeout 0..3 s), lock, password
// change (right/wrong old password) and the passage of time, from a locked wallet.
func verifC38_lock() {
	const p0, p1, bad = "oldpass123", "newpass456", "wrongpw000"
	mem, _ := dbm.NewGoMemDB("verifc38", "", 0)
	db := &verifC38DB{DB: mem}
	w := &Wallet{walletStore: newStore(db), EncryptFlag: 1, isWalletLocked: 1}
	batch := db.NewBatch(true)
	ok, err := SaveSeedInBatch(db, "seed words", p0, batch)
	verifAssert("C38/setup", ok && err == nil && w.walletStore.SetPasswordHash(p0, batch) == nil && w.walletStore.SetEncryptionFlag(batch) == nil && batch.Write() == nil)
	db.w = w
	if verifChoose("password-in-memory", 2) == 1 {
		w.Password = p0 // unlocked earlier in this process and locked again
	}
	current := p0
	now := int64(0)
	// reference: the wallet may be unlocked only between a successful unlock and the next
	// lock / expiry of that unlock's timeout
	mayBeUnlocked := false
	deadline := int64(-1) // -1: no timeout pending
	steps := verifParam("steps", 3)
	for s := 0; s < steps; s++ {
		db.seen = nil
		lockedBefore := w.IsWalletLocked()
		failed := false
		switch verifChoose("op", 4) {
		case 0: // unlock
			pass := []string{current, bad}[verifChoose("unlock.password", 2)]
			timeout := verifI64("unlock.timeout")
			verifAssume(timeout >= 0 && timeout <= 3)
			err := w.ProcWalletUnLock(&types.WalletUnLock{Passwd: pass, Timeout: timeout})
			if pass == current {
				verifAssert("C38/unlock-with-right-password-succeeds", err == nil)
			} else {
				verifAssert("C38/unlock-with-wrong-password-fails", err != nil)
			}
			failed = err != nil
			if err == nil {
				mayBeUnlocked = true
				if timeout != 0 {
					deadline = now + timeout
				}
			}
		case 1: // lock
			verifAssert("C38/lock-succeeds", w.ProcWalletLock() == nil)
			mayBeUnlocked = false
			verifAssert("C38/locked-after-lock", w.IsWalletLocked())
		case 2: // password change
			old := []string{current, bad}[verifChoose("setpasswd.old", 2)]
			err := w.ProcWalletSetPasswd(&types.ReqWalletSetPasswd{OldPass: old, NewPass: p1})
			if old != current {
				verifAssert("C38/password-change-with-wrong-password-fails", err != nil)
			}
			failed = err != nil
			if err == nil {
				current = p1
			}
		case 3: // time passes
			dt := verifI64("elapsed")
			verifAssume(dt >= 1 && dt <= 3)
			verifAdvanceClock(dt)
			now += dt
			if deadline >= 0 && deadline <= now {
				mayBeUnlocked = false
				deadline = -1
			}
		}
		if !w.IsWalletLocked() {
			verifAssert("C38/unlocked-only-after-successful-unlock-and-before-lock-or-timeout", mayBeUnlocked)
		}
		if failed && lockedBefore {
			verifAssert("C38/failed-operation-leaves-wallet-locked", w.IsWalletLocked())
			for _, u := range db.seen {
				verifAssert("C38/failed-operation-never-appears-unlocked", !u)
			}
		}
	}
	verifObserve("locked", w.IsWalletLocked())
}
