package PKGNAME

import "bytes"

type verifKV struct{ k, v []byte }

type verifMap struct{ items []verifKV } // ascending, unique keys

func (m *verifMap) find(k []byte) int {
	for i, it := range m.items {
		if bytes.Equal(it.k, k) {
			return i
		}
	}
	return -1
}
func (m *verifMap) set(k, v []byte) bool {
	if i := m.find(k); i >= 0 {
		m.items[i].v = v
		return true
	}
	pos := len(m.items)
	for i, it := range m.items {
		if bytes.Compare(k, it.k) < 0 {
			pos = i
			break
		}
	}
	m.items = append(m.items, verifKV{})
	copy(m.items[pos+1:], m.items[pos:])
	m.items[pos] = verifKV{k, v}
	return false
}
func (m *verifMap) del(k []byte) bool {
	if i := m.find(k); i >= 0 {
		m.items = append(m.items[:i:i], m.items[i+1:]...)
		return true
	}
	return false
}
func (m *verifMap) clone() *verifMap {
	return &verifMap{items: append([]verifKV(nil), m.items...)}
}

// representation invariant of a subtree; returns (least key, height, size)
func verifC01Inv(t *Tree, n *Node) ([]byte, []byte, int32, int32) {
	if n.height == 0 {
		verifAssert("C01/leaf-size", n.size == 1)
		return n.key, n.key, 0, 1
	}
	l, r := n.getLeftNode(t), n.getRightNode(t)
	lmin, lmax, lh, ls := verifC01Inv(t, l)
	rmin, rmax, rh, rs := verifC01Inv(t, r)
	h := lh
	if rh > h {
		h = rh
	}
	verifAssert("C01/inner-key-is-least-right-key", bytes.Equal(n.key, rmin))
	verifAssert("C01/left-below-key", bytes.Compare(lmax, n.key) < 0)
	verifAssert("C01/height-correct", n.height == h+1)
	verifAssert("C01/size-correct", n.size == ls+rs)
	verifAssert("C01/balanced", lh-rh <= 1 && rh-lh <= 1)
	return lmin, rmax, h + 1, ls + rs
}

func verifC01SameAs(label string, t *Tree, m *verifMap) {
	var got []verifKV
	t.Iterate(func(k, v []byte) bool {
		got = append(got, verifKV{k, v})
		return false
	})
	verifAssert(label+"-count", len(got) == len(m.items) && int(t.Size()) == len(m.items))
	for i := range got {
		if i < len(m.items) {
			verifAssert(label+"-entry", bytes.Equal(got[i].k, m.items[i].k) && bytes.Equal(got[i].v, m.items[i].v))
		}
	}
	for _, it := range m.items {
		_, v, ok := t.Get(it.k)
		verifAssert(label+"-get", ok && bytes.Equal(v, it.v))
	}
}

func verifC01Key(name string) []byte {
	return verifBytes(name, 1+verifChoose(name+".len", verifParam("keylen", 1)))
}

// verifC01_inmem: a tree built by a history of writes, then one more Set or Remove with a
// symbolic key: the new root is the updated map, satisfies the AVL/search invariants, and
// the previous root still denotes exactly the previous map (persistence, copy-on-write).
func verifC01_inmem() {
	t := NewTree(nil, true, nil)
	m := &verifMap{}
	n := verifParam("inserts", 4)
	for i := 0; i < n; i++ {
		k := verifC01Key("key")
		v := []byte{byte('a' + i)}
		upd := t.Set(k, v)
		verifAssert("C01/set-reports-update", upd == m.set(k, v))
	}
	old := &Tree{root: t.root}
	oldMap := m.clone()
	k := verifC01Key("opkey")
	if verifChoose("op", 2) == 0 {
		v := []byte{'Z'}
		upd := t.Set(k, v)
		verifAssert("C01/set-reports-update", upd == m.set(k, v))
	} else {
		val, removed := t.Remove(k)
		i := oldMap.find(k)
		verifAssert("C01/remove-reports", removed == (i >= 0))
		if i >= 0 {
			verifAssert("C01/remove-returns-value", bytes.Equal(val, oldMap.items[i].v))
		}
		m.del(k)
	}
	if t.root != nil {
		verifC01Inv(t, t.root)
		verifC01SameAs("C01/new-root", t, m)
	} else {
		verifAssert("C01/empty-after-remove", len(m.items) == 0)
	}
	if old.root != nil {
		verifC01SameAs("C01/old-root-unchanged", old, oldMap)
	}
	probe := verifC01Key("probe")
	_, pv, pok := t.Get(probe)
	if i := m.find(probe); i >= 0 {
		verifAssert("C01/probe-present", pok && bytes.Equal(pv, m.items[i].v))
	} else {
		verifAssert("C01/probe-absent", !pok)
	}
}

func verifC01Bound(name string) []byte {
	switch verifChoose(name+".shape", 3) {
	case 1:
		return nil
	case 2:
		return []byte{}
	}
	return verifC01Key(name)
}

// verifC01_range: range iteration visits exactly the in-range keys once, in order.
func verifC01_range() {
	t := NewTree(nil, true, nil)
	m := &verifMap{}
	n := verifParam("inserts", 4)
	for i := 0; i < n; i++ {
		k := verifC01Key("key")
		v := []byte{byte('a' + i)}
		t.Set(k, v)
		m.set(k, v)
	}
	// bound shapes: a key, nil (no bound on that side), or an empty non-nil slice (a real bound:
	// every key is >= "", no key is < "")
	start, end := verifC01Bound("start"), verifC01Bound("end")
	asc := verifChoose("ascending", 2) == 1
	incl := verifChoose("inclusive", 2) == 1
	var want [][]byte
	for _, it := range m.items {
		in := (start == nil || bytes.Compare(it.k, start) >= 0) &&
			(end == nil || bytes.Compare(it.k, end) < 0 || (incl && bytes.Equal(it.k, end)))
		if in {
			want = append(want, it.k)
		}
	}
	if !asc {
		for i, j := 0, len(want)-1; i < j; i, j = i+1, j-1 {
			want[i], want[j] = want[j], want[i]
		}
	}
	var got [][]byte
	cb := func(k, v []byte) bool { got = append(got, k); return false }
	if incl {
		t.IterateRangeInclusive(start, end, asc, cb)
	} else {
		t.IterateRange(start, end, asc, cb)
	}
	verifAssert("C01/range-count", len(got) == len(want))
	for i := range got {
		if i < len(want) {
			verifAssert("C01/range-order", bytes.Equal(got[i], want[i]))
		}
	}
}
