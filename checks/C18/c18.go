package PKGNAME

import "bytes"

func verifC18Leaves(n int, tagged bool) [][]byte {
	ls := make([][]byte, n)
	for i := range ls {
		ls[i] = verifWide("leaf", 32)
		if tagged {
			verifHashTag(ls[i], 0) // a transaction hash is not an inner node
		}
	}
	return ls
}

func verifC18Copy(ls [][]byte) [][]byte {
	out := make([][]byte, len(ls))
	copy(out, ls)
	return out
}

// verifC18_seq_vs_parallel: for every leaf count n (case split) and worker count, the
// parallel root equals the sequential root (Computation's root is compared in verifC18_branch); leaves are symbolic,
// the 64-byte hash is an uninterpreted function, worker goroutines complete in spawn
// order and in reverse order.
func verifC18_seq_vs_parallel() {
	lo := verifParam("n_lo", 1)
	hi := verifParam("n_hi", 300)
	n := lo + verifChoose("n", hi-lo+1)
	cpus := []int{1, 2, 3, 4, 6, 8, 12, 16, 32, 64}
	ncpu := cpus[verifChoose("ncpu", len(cpus))]
	order := verifChoose("completion-order", 2)
	verifSetNumCPU(ncpu)
	verifGoMode(1 + order)
	leaves := verifC18Leaves(n, false)
	seq := getMerkleRoot(verifC18Copy(leaves))
	par := GetMerkleRoot(verifC18Copy(leaves))
	verifAssert("C18/parallel-equals-sequential", bytes.Equal(seq, par))
	verifObserve("root", n, seq)
}

// verifC18_branch: every position's branch recomputes the root. Leaves are pairwise
// distinct non-hash values (so the duplicate-detection comparisons do not fork).
func verifC18_branch() {
	lo := verifParam("n_lo", 1)
	hi := verifParam("n_hi", 16)
	n := lo + verifChoose("n", hi-lo+1)
	pos := verifChoose("pos", n)
	leaves := verifC18Leaves(n, true)
	for i := 0; i < n; i++ {
		for j := i + 1; j < n; j++ {
			verifAssume(!bytes.Equal(leaves[i], leaves[j]))
		}
	}
	root, mutated, branch := Computation(verifC18Copy(leaves), 3, uint32(pos))
	verifAssert("C18/distinct-leaves-not-mutated", !mutated)
	got := GetMerkleRootFromBranch(branch, leaves[pos], uint32(pos))
	verifAssert("C18/branch-recomputes-root", bytes.Equal(got, root))
	b2 := GetMerkleBranch(verifC18Copy(leaves), uint32(pos))
	verifAssert("C18/branch-only-same", len(b2) == len(branch))
	r2, b3 := GetMerkleRootAndBranch(verifC18Copy(leaves), uint32(pos))
	verifAssert("C18/root-and-branch-same", bytes.Equal(r2, root) && len(b3) == len(branch))
	verifAssert("C18/root-equals-sequential", bytes.Equal(root, getMerkleRoot(verifC18Copy(leaves))))
	verifObserve("branch", n, pos, len(branch), root)
}

// verifC18_branch_any: small lists of arbitrary (possibly repeated) leaves.
func verifC18_branch_any() {
	hi := verifParam("n_hi", 5)
	n := 1 + verifChoose("n", hi)
	pos := verifChoose("pos", n)
	leaves := verifC18Leaves(n, true)
	root, _, branch := Computation(verifC18Copy(leaves), 3, uint32(pos))
	got := GetMerkleRootFromBranch(branch, leaves[pos], uint32(pos))
	verifAssert("C18/branch-recomputes-root-any", bytes.Equal(got, root))
}

// verifC18_binding: two lists with equal roots are identical unless one of them is
// flagged as mutated (duplicated tail). Collision-free hash, leaves outside its range.
func verifC18_binding() {
	hi := verifParam("n_hi", 4)
	n := 1 + verifChoose("n", hi)
	m := 1 + verifChoose("m", hi)
	a := verifC18Leaves(n, true)
	b := verifC18Leaves(m, true)
	ra, ma, _ := Computation(verifC18Copy(a), 1, 0)
	rb, mb, _ := Computation(verifC18Copy(b), 1, 0)
	if !bytes.Equal(ra, rb) {
		return
	}
	verifReach("equal-roots")
	same := n == m
	if same {
		for i := 0; i < n; i++ {
			if !bytes.Equal(a[i], b[i]) {
				same = false
			}
		}
	}
	verifAssert("C18/equal-root-implies-identical-or-mutated", same || ma || mb)
}
