package PKGNAME

import (
	"bytes"

	"github.com/33cn/chain33/types"
)

// verifC28_expire: a transaction is expired at (height, blocktime) exactly according to
// the three documented regimes (height, block time, tx-height window); a group is expired
// iff a member is.
func verifC28_expire() {
	txHeightOn := verifChoose("txheight-enabled", 2) == 1
	forks := map[string]int64{"ForkTxHeight": int64(verifChoose("forktxheight", 2)) * 1000}
	cfg := types.VerifNewConfigForks("verif", types.DefaultCoinPrecision, nil, forks)
	types.VerifSetChainConfig(cfg, "TxHeight", txHeightOn)
	height := verifI64("height")
	blocktime := verifI64("blocktime")
	verifAssume(height >= 0 && blocktime >= 0)
	ref := func(expire int64) bool {
		if expire == 0 {
			return false
		}
		if expire <= types.ExpireBound {
			return expire <= height
		}
		if txHeightOn && height >= forks["ForkTxHeight"] && expire > types.TxHeightFlag {
			txh := expire - types.TxHeightFlag
			return !(txh-types.LowAllowPackHeight <= height && height <= txh+types.HighAllowPackHeight)
		}
		return expire <= blocktime
	}
	tx := &types.Transaction{Execer: []byte("none"), Expire: verifI64("expire")}
	verifAssert("C28/single-expiry-regimes", tx.IsExpire(cfg, height, blocktime) == ref(tx.Expire))
	// group of two
	a := &types.Transaction{Execer: []byte("none"), Expire: verifI64("expire-a"), Nonce: 1}
	b := &types.Transaction{Execer: []byte("none"), Expire: verifI64("expire-b"), Nonce: 2}
	g := &types.Transactions{Txs: []*types.Transaction{a, b}}
	verifAssert("C28/group-expired-iff-member", g.IsExpire(cfg, height, blocktime) == (ref(a.Expire) || ref(b.Expire)))
}

// verifC28_deldup: duplicate removal keeps exactly the last occurrence of every hash, in order.
func verifC28_deldup() {
	pool := make([]*types.Transaction, 3)
	for i := range pool {
		pool[i] = &types.Transaction{Execer: []byte("none"), Payload: []byte{byte(i)}, Nonce: int64(i + 1), Fee: verifI64("fee")}
	}
	n := verifChoose("len", verifParam("maxlen", 4)+1)
	var in []*types.TransactionCache
	var idx []int
	for i := 0; i < n; i++ {
		k := verifChoose("pick", len(pool))
		in = append(in, &types.TransactionCache{Transaction: pool[k]})
		idx = append(idx, k)
	}
	orig := append([]*types.TransactionCache(nil), in...)
	out := DelDupTx(in)
	var want []*types.TransactionCache
	for i := range orig {
		last := true
		for j := i + 1; j < len(orig); j++ {
			if idx[j] == idx[i] {
				last = false
			}
		}
		if last {
			want = append(want, orig[i])
		}
	}
	verifAssert("C28/deldup-length", len(out) == len(want))
	for i := range out {
		if i < len(want) {
			verifAssert("C28/deldup-keeps-last-in-order", out[i] == want[i])
		}
		for j := i + 1; j < len(out); j++ {
			verifAssert("C28/deldup-no-repeated-hash", !bytes.Equal(out[i].Hash(), out[j].Hash()))
		}
	}
}
