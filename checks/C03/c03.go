package PKGNAME

import (
	"bytes"

	"github.com/33cn/chain33/types"
	"github.com/golang/protobuf/proto"
)

func verifC03Key(name string) []byte {
	n := verifParam("keylen", 1)
	return verifBytes(name, 1+verifChoose(name+".len", n))
}

// verifC03Tree builds an in-memory tree from symbolic writes and hashes it.
func verifC03Tree() (*Tree, []byte, [][]byte, [][]byte) {
	t := NewTree(nil, true, nil)
	n := verifParam("inserts", 3)
	var keys, vals [][]byte
	for i := 0; i < n; i++ {
		k := verifC03Key("key")
		v := verifBytes("value", 1)
		t.Set(k, v)
		found := false
		for j := range keys {
			if bytes.Equal(keys[j], k) {
				vals[j] = v
				found = true
			}
		}
		if !found {
			keys = append(keys, k)
			vals = append(vals, v)
		}
	}
	return t, t.Hash(), keys, vals
}

// verifC03_complete_sound: for every present key the constructed proof verifies with the
// stored value and the tree's root; it does not verify for another value, another key or
// another root; an absent key gets no proof. The proof survives its wire encoding.
func verifC03_complete_sound() {
	t, root, keys, vals := verifC03Tree()
	for i, k := range keys {
		v, proof := t.ConstructProof(k)
		verifAssert("C03/present-key-has-proof", proof != nil && bytes.Equal(v, vals[i]))
		if proof == nil {
			continue
		}
		verifAssert("C03/proof-verifies", proof.Verify(k, vals[i], root))
		// through the wire format used by the store
		data, err := proto.Marshal(&types.MAVLProof{InnerNodes: proof.InnerNodes})
		verifAssert("C03/proof-encodes", err == nil)
		back, err := ReadProof(root, proof.LeafHash, data)
		verifAssert("C03/proof-decodes", err == nil && back != nil)
		if back != nil {
			verifAssert("C03/decoded-proof-verifies", back.Verify(k, vals[i], root))
		}
	}
	// soundness for one chosen key
	i := verifChoose("which", len(keys))
	_, proof := t.ConstructProof(keys[i])
	if proof == nil {
		return
	}
	switch verifChoose("tamper", 4) {
	case 0:
		v2 := verifBytes("other-value", verifChoose("other-value.len", 3))
		verifAssume(!bytes.Equal(v2, vals[i]))
		verifAssert("C03/other-value-rejected", !proof.Verify(keys[i], v2, root))
	case 1:
		k2 := verifC03Key("other-key")
		verifAssume(!bytes.Equal(k2, keys[i]))
		// with that key's own value if it has one, or an arbitrary one
		v2 := verifBytes("other-key-value", 1)
		verifAssert("C03/other-key-rejected", !proof.Verify(k2, v2, root))
	case 2:
		// another root of 32, 33 or 64 bytes, given to Verify directly and through ReadProof
		// (the store hands the caller's root to ReadProof, which records it in the proof)
		// (roots derived from the real one are built from it so that a counterexample can be
		// replayed with the real hash function)
		var r2 []byte
		switch verifChoose("other-root.shape", 4) {
		case 0:
			r2 = verifWide("other-root", 32)
		case 1:
			r2 = append(verifBytes("other-root.prefix", []int{1, 32}[verifChoose("other-root.prefix.len", 2)]), root...)
		case 2:
			r2 = append(append([]byte{}, root...), verifBytes("other-root.suffix", 1)...)
		case 3:
			r2 = append([]byte{}, root...)
			m := verifU8("other-root.flip")
			verifAssume(m != 0)
			r2[verifChoose("other-root.flip-at", 2)*31] ^= m
		}
		verifAssume(!bytes.Equal(r2, root))
		verifAssert("C03/other-root-rejected", !proof.Verify(keys[i], vals[i], r2))
		data, _ := proto.Marshal(&types.MAVLProof{InnerNodes: proof.InnerNodes})
		back, err := ReadProof(r2, proof.LeafHash, data)
		verifAssert("C03/proof-decodes", err == nil && back != nil)
		if back != nil {
			verifAssert("C03/other-root-rejected-through-readproof", !back.Verify(keys[i], vals[i], r2))
		}
	case 3:
		// a proof with one inner node dropped or duplicated must not verify
		p2 := &Proof{LeafHash: proof.LeafHash, RootHash: proof.RootHash}
		if len(proof.InnerNodes) == 0 {
			return
		}
		if verifChoose("drop-or-dup", 2) == 0 {
			p2.InnerNodes = proof.InnerNodes[1:]
		} else {
			p2.InnerNodes = append([]*types.InnerNode{proof.InnerNodes[0]}, proof.InnerNodes...)
		}
		verifAssert("C03/mangled-proof-rejected", !p2.Verify(keys[i], vals[i], root))
	}
	absent := verifC03Key("absent")
	present := false
	for _, k := range keys {
		if bytes.Equal(k, absent) {
			present = true
		}
	}
	if !present {
		_, p := t.ConstructProof(absent)
		verifAssert("C03/absent-key-has-no-proof", p == nil)
	}
}

// verifC03_crashfree: verifying a proof object with arbitrary hashes, inner nodes and leaf
// hash lengths never panics and never accepts unless the hashes chain to the root.
func verifC03_crashfree() {
	n := verifChoose("inner-nodes", 3)
	p := &Proof{LeafHash: verifBytes("leafhash", []int{0, 1, 32, 33}[verifChoose("leafhash.len", 4)]), RootHash: verifBytes("roothash", []int{0, 32}[verifChoose("roothash.len", 2)])}
	for k := 0; k < n; k++ {
		in := &types.InnerNode{Height: verifI32("height"), Size: verifI32("size")}
		if verifChoose("left-present", 2) == 1 {
			in.LeftHash = verifWide("left", 32)
		}
		if verifChoose("right-present", 2) == 1 {
			in.RightHash = verifWide("right", 32)
		}
		p.InnerNodes = append(p.InnerNodes, in)
	}
	key, value := verifBytes("key", 1), verifBytes("value", 1)
	if verifChoose("leafhash-consistent", 2) == 1 {
		// the attacker knows the leaf: its real hash, optionally behind a prefix (the code
		// keeps the last 32 bytes)
		leaf := types.LeafNode{Key: key, Value: value, Height: 0, Size: 1}
		p.LeafHash = append(verifBytes("leafhash.prefix", verifChoose("leafhash.prefix.len", 2)), leaf.Hash()...)
	}
	root := p.RootHash
	if verifChoose("root-differs", 2) == 1 {
		root = verifBytes("root", []int{0, 32}[verifChoose("root.len", 2)])
	}
	ok := p.Verify(key, value, root)
	verifReach("C03/verify-returned")
	if ok {
		verifAssert("C03/accepting-needs-matching-root", bytes.Equal(root, p.RootHash))
	}
	verifObserve("ok", ok)
}
