package PKGNAME

import (
	"bytes"

	dbm "github.com/33cn/chain33/common/db"
	"github.com/33cn/chain33/queue"
	"github.com/33cn/chain33/types"
)

// key-value store model (keys compared for equality only; the ordered backends are C06/C07)
type verifC26DB struct {
	dbm.DB
	m map[string][]byte
}

func (d *verifC26DB) Get(key []byte) ([]byte, error) {
	if v, ok := d.m[string(key)]; ok {
		return v, nil
	}
	return nil, dbm.ErrNotFoundInDb
}
func (d *verifC26DB) NewBatch(sync bool) dbm.Batch { return &verifC26Batch{db: d} }

type verifC26Op struct {
	key, val []byte
	del      bool
}
type verifC26Batch struct {
	dbm.Batch
	db  *verifC26DB
	ops []verifC26Op
}

func (b *verifC26Batch) Set(key, value []byte) {
	b.ops = append(b.ops, verifC26Op{key: append([]byte(nil), key...), val: append([]byte{}, value...)})
}
func (b *verifC26Batch) Delete(key []byte) {
	b.ops = append(b.ops, verifC26Op{key: append([]byte(nil), key...), del: true})
}
func (b *verifC26Batch) Write() error {
	for _, o := range b.ops {
		if o.del {
			delete(b.db.m, string(o.key))
		} else {
			b.db.m[string(o.key)] = o.val
		}
	}
	b.ops = nil
	return nil
}

type verifC26Client struct {
	queue.Client
	cfg *types.Chain33Config
}

func (c *verifC26Client) GetConfig() *types.Chain33Config { return c.cfg }

// block bodies / headers tables and the para-tx table are not the subject here
func verifC26SaveBlockForTable(bs *BlockStore, batch dbm.Batch, detail *types.BlockDetail, isBestChain, isSaveReceipt bool) error {
	return nil
}
func verifC26DelParaTxTable(db dbm.DB, height int64) ([]*types.KeyValue, error) { return nil, nil }

type verifC26Rec struct {
	hash []byte
	ty   int64
}

// verifC26_log: a history of block connections and disconnections (reorganisations included:
// disconnect down to a fork point, connect another branch, possibly the same blocks again)
// with sequence recording on. Sequence numbers are consecutive from 0, never reused, every
// record names the right block and operation, and replaying the records gives the chain.
func verifC26_log() {
	cfg := types.VerifNewConfigForks("verif", types.DefaultCoinPrecision, nil, map[string]int64{"ForkBlockHash": 0})
	db := &verifC26DB{m: map[string][]byte{}}
	if verifNativeRepeat(2) == 2 {
		// native replays run the real table code (stubbed out under the engine): it needs
		// a working database behind the model for its own reads
		db.DB, _ = dbm.NewGoMemDB("verifc26", "", 0)
	}
	bs := &BlockStore{db: db, client: &verifC26Client{cfg: cfg}, saveSequence: true}

	var chain [][]byte         // best chain: hash at height i
	var blocks []*types.Block // blocks on the best chain
	var log []verifC26Rec
	var removed []*types.Block // disconnected blocks (may be connected again)
	steps := verifParam("steps", 4)
	for s := 0; s < steps; s++ {
		op := verifChoose("op", 3)
		height := int64(len(chain))
		switch {
		case op == 0 || height == 0: // connect a new block with arbitrary content
			parent := []byte(nil)
			if height > 0 {
				parent = chain[height-1]
			}
			b := &types.Block{Height: height, ParentHash: parent, TxHash: verifWide("block.txhash", 4), BlockTime: verifI64("block.time")}
			batch := db.NewBatch(true)
			_, err := bs.SaveBlock(batch, &types.BlockDetail{Block: b}, 0)
			verifAssert("C26/connect-succeeds", err == nil && batch.Write() == nil)
			chain = append(chain, b.Hash(cfg))
			blocks = append(blocks, b)
			log = append(log, verifC26Rec{b.Hash(cfg), types.AddBlock})
		case op == 1: // disconnect the tip
			b := blocks[height-1]
			batch := db.NewBatch(true)
			_, err := bs.DelBlock(batch, &types.BlockDetail{Block: b}, 0)
			verifAssert("C26/disconnect-succeeds", err == nil && batch.Write() == nil)
			log = append(log, verifC26Rec{chain[height-1], types.DelBlock})
			removed = append(removed, b)
			chain, blocks = chain[:height-1], blocks[:height-1]
		default: // connect a previously disconnected block again, if one fits on the tip
			var b *types.Block
			for _, r := range removed {
				if r.Height == height && (height == 0 || bytes.Equal(r.ParentHash, chain[height-1])) {
					b = r
				}
			}
			if b == nil {
				verifStop()
			}
			batch := db.NewBatch(true)
			_, err := bs.SaveBlock(batch, &types.BlockDetail{Block: b}, 0)
			verifAssert("C26/reconnect-succeeds", err == nil && batch.Write() == nil)
			chain = append(chain, b.Hash(cfg))
			blocks = append(blocks, b)
			log = append(log, verifC26Rec{b.Hash(cfg), types.AddBlock})
		}
	}
	verifC26Check(bs, db, chain, log)
}

func verifC26Check(bs *BlockStore, db *verifC26DB, chain [][]byte, log []verifC26Rec) {
	last, err := bs.LoadBlockLastSequence()
	verifAssert("C26/last-sequence-counts-every-operation", err == nil && last == int64(len(log))-1)
	var replay [][]byte
	for k, want := range log {
		rec, err := bs.GetBlockSequence(int64(k))
		verifAssert("C26/every-sequence-number-has-a-record", err == nil && rec != nil)
		if rec == nil {
			continue
		}
		verifAssert("C26/record-names-the-block-and-operation", bytes.Equal(rec.Hash, want.hash) && rec.Type == want.ty)
		if rec.Type == types.AddBlock {
			replay = append(replay, rec.Hash)
		} else if len(replay) > 0 {
			replay = replay[:len(replay)-1]
		}
	}
	_, err = bs.GetBlockSequence(int64(len(log)))
	verifAssert("C26/no-record-beyond-the-last", err != nil)
	verifAssert("C26/replay-length", len(replay) == len(chain))
	for h := range chain {
		got, err := db.Get(calcHeightToHashKey(int64(h)))
		verifAssert("C26/height-index-matches-chain", err == nil && bytes.Equal(got, chain[h]))
		if h < len(replay) {
			verifAssert("C26/replay-reproduces-the-chain", bytes.Equal(replay[h], chain[h]))
		}
		// the hash -> sequence index points at the latest add record of that block
		seq, err := bs.GetSequenceByHash(chain[h])
		verifAssert("C26/hash-to-sequence-known", err == nil)
		latest := int64(-1)
		for k, r := range log {
			if r.ty == types.AddBlock && bytes.Equal(r.hash, chain[h]) {
				latest = int64(k)
			}
		}
		verifAssert("C26/hash-to-sequence-is-latest-add", seq == latest)
	}
	_, err = db.Get(calcHeightToHashKey(int64(len(chain))))
	verifAssert("C26/no-height-above-the-tip", err != nil)
	verifObserve("len", len(chain), len(log))
}
