package PKGNAME

import (
	"container/list"
	"time"

	"github.com/33cn/chain33/p2p"
	"github.com/33cn/chain33/p2p/utils"
	"github.com/33cn/chain33/queue"
	"github.com/33cn/chain33/system/p2p/dht/protocol"
	"github.com/33cn/chain33/types"
	"github.com/libp2p/go-libp2p/core/peer"
)

// message-bus stub: answers the mempool's EventTxListByHash with what the harness decided
// the pool holds at that moment (one entry per requested short hash, nil when unknown - the
// mempool's documented reply shape)
type verifC33Client struct {
	queue.Client
	cfg  *types.Chain33Config
	pool map[string]*types.Transaction
	sent int
}

func (c *verifC33Client) GetConfig() *types.Chain33Config { return c.cfg }
func (c *verifC33Client) NewMessage(topic string, ty int64, data interface{}) *queue.Message {
	return &queue.Message{Topic: topic, Ty: ty, Data: data}
}
func (c *verifC33Client) Send(msg *queue.Message, waitReply bool) error { c.sent++; return nil }
func (c *verifC33Client) WaitTimeout(msg *queue.Message, t time.Duration) (*queue.Message, error) {
	req, ok := msg.Data.(*types.ReqTxHashList)
	if !ok {
		return nil, types.ErrNotSupport
	}
	reply := &types.ReplyTxList{}
	for _, h := range req.Hashes {
		reply.Txs = append(reply.Txs, c.pool[h])
	}
	return &queue.Message{Data: reply}, nil
}

// engine-only replacement of postBlockChain (needs the p2p manager): counts the posts
var verifC33Posted int

func verifC33PostBlockChain(p *broadcastProtocol, blockHash, receiveFrom string, block *types.Block, publisher peer.ID) error {
	verifC33Posted++
	return nil
}

func verifC33Group(n int, tag byte) *types.Transaction {
	var txs []*types.Transaction
	for k := 0; k < n; k++ {
		txs = append(txs, &types.Transaction{Execer: []byte("none"), Payload: []byte{tag, byte(k)}, To: "x"})
	}
	g, err := types.CreateTxGroup(txs, 0)
	if err != nil {
		return nil
	}
	return g.Tx()
}

// verifC33_lightblock: a peer sends a light block (arbitrary tx count and short-hash list),
// it is handled the way the pubsub receive loop does (with its recover), stays pending when
// transactions are missing, and is retried by the pending-block loop (no recover there) after
// the pool changed: single transactions and transaction groups arriving for any of its
// slots. No step may panic; a block completed by arrivals is posted to the block chain module
// (engine: counted by a stub of postBlockChain).
func verifC33_lightblock() {
	cfg := types.VerifNewConfig(types.DefaultCoinPrecision, nil)
	cli := &verifC33Client{cfg: cfg, pool: map[string]*types.Transaction{}}
	p := &broadcastProtocol{P2PEnv: &protocol.P2PEnv{QueueClient: cli, ChainCfg: cfg}}
	p.blockFilter = utils.NewFilter(16)
	p.cfg.LtBlockPendTimeout = 1 << 40 // never reached: the timeout path publishes to the peer
	if verifNativeRepeat(2) == 2 {
		// native runs execute the real postBlockChain (stubbed under the engine): give it
		// a p2p manager that sends on the same message-bus stub
		types.VerifSetP2PTypes(cfg, "dht")
		mgr := p2p.NewP2PMgr(cfg)
		mgr.Client = cli
		p.P2PManager = mgr
		p.val = newValidator(nil)
	}
	l := &ltBroadcast{broadcastProtocol: p, pendBlockList: list.New(), blockRequestList: list.New()}
	p.ltB = l

	maxTx := verifParam("maxtx", 4)
	txCount := verifI64("header.txcount")
	verifAssume(txCount >= -2 && txCount <= int64(maxTx))
	nHashes := verifChoose("shorthashes", maxTx+1)
	lb := &types.LightBlock{Header: &types.Header{Height: 10, TxCount: txCount, Hash: []byte("blockhash")}, MinerTx: &types.Transaction{Execer: []byte("miner")}}
	for k := 0; k < nHashes; k++ {
		lb.STxHashes = append(lb.STxHashes, string([]byte{'h', byte('0' + k)}))
	}
	if verifChoose("header-present", 4) == 0 {
		lb.Header = nil
	}
	p.handleBroadcastReceive(subscribeMsg{topic: psLtBlockTopic, value: lb, receiveFrom: "peerA", publisher: "peerB"})
	verifReach("C33/received")

	rounds := verifParam("rounds", 2)
	for r := 0; r < rounds; r++ {
		// the pool learns some of the block's transactions: plain ones or group heads
		missing := false
		for k := 1; k < nHashes; k++ {
			h := lb.STxHashes[k]
			switch verifChoose("arrives", 4) {
			case 0:
				missing = true
				delete(cli.pool, h)
			case 1:
				cli.pool[h] = &types.Transaction{Execer: []byte("none"), Payload: []byte{byte(k)}, To: "x"}
			case 2:
				cli.pool[h] = verifC33Group(2, byte(k))
			case 3:
				cli.pool[h] = verifC33Group(3, byte(k))
			}
		}
		verifAssume(missing || nHashes <= 1)
		if nHashes <= 1 {
			verifStop()
		}
		timedOut := l.buildPendList() // what pendBlockLoop runs every 200 ms
		verifAssert("C33/no-timeout-in-harness", len(timedOut) == 0)
	}
	verifObserve("pending", l.pendBlockList.Len())
}
