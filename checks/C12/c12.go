package PKGNAME

import (
	"bytes"

	"github.com/33cn/chain33/client"
	"github.com/33cn/chain33/queue"
	drivers "github.com/33cn/chain33/system/dapp"
	"github.com/33cn/chain33/types"
)

// minimal queue client: only the configuration is ever asked for
type verifClient struct {
	queue.Client
	cfg *types.Chain33Config
}

func (c *verifClient) GetConfig() *types.Chain33Config { return c.cfg }

// the committed state below the block is empty: every store lookup misses
func (c *verifClient) NewMessage(topic string, ty int64, data interface{}) *queue.Message {
	return &queue.Message{}
}
func (c *verifClient) Send(msg *queue.Message, waitReply bool) error { return types.ErrNotFound }

func verifC12Key(name string, maxlen int) []byte {
	return verifBytes(name, 1+verifChoose(name+".len", maxlen))
}

// verifC12_statedb_keys: for any sequence of Begin / StartTx / Set / Commit / Rollback the
// keys reported for the current transaction are exactly the keys it wrote (this is what the
// receipt check compares against), and reads see the latest visible write.
func verifC12_statedb_keys() {
	rollbackFork := int64(verifChoose("rollback-fork-active", 2)) // 0: active from height 0, 1: not yet
	forks := map[string]int64{"ForkExecRollback": rollbackFork * 100}
	cfg := types.VerifNewConfigForks("verif", types.DefaultCoinPrecision, nil, forks)
	s := NewStateDB(&verifClient{cfg: cfg}, nil, nil, &StateDBOption{Height: 10}).(*StateDB)
	keys := [][]byte{verifC12Key("k0", verifParam("keylen", 2)), verifC12Key("k1", verifParam("keylen", 2))}
	verifAssume(!bytes.Equal(keys[0], keys[1]))
	nops := verifParam("ops", 5)
	// model
	intx := false
	var written []int           // keys written by the current transaction (since StartTx)
	committed := map[int]byte{} // block-level cache
	pending := map[int]byte{}   // open transaction group
	for step := 0; step < nops; step++ {
		switch verifChoose("op", 5) {
		case 0:
			s.Begin()
			intx = true
			written = nil
			if rollbackFork == 0 {
				pending = map[int]byte{}
			}
		case 1:
			s.StartTx()
			written = nil
		case 2:
			k := verifChoose("key", 2)
			v := byte('a' + step)
			s.Set(keys[k], []byte{v})
			if intx {
				written = append(written, k)
				pending[k] = v
			} else {
				committed[k] = v
			}
		case 3:
			s.Commit()
			for k, v := range pending {
				committed[k] = v
			}
			intx = false
			written = nil
			if rollbackFork == 0 {
				pending = map[int]byte{}
			}
		case 4:
			s.Rollback()
			intx = false
			written = nil
			pending = map[int]byte{}
		}
		got := s.GetSetKeys()
		// every key written by the current transaction is reported
		for _, k := range written {
			found := false
			for _, g := range got {
				if g == string(keys[k]) {
					found = true
				}
			}
			verifAssert("C12/written-key-is-reported", found)
		}
		// nothing is reported that the current transaction did not write
		for _, g := range got {
			ok := false
			for _, k := range written {
				if g == string(keys[k]) {
					ok = true
				}
			}
			verifAssert("C12/reported-key-was-written", ok)
		}
		// reads: open transaction first, then the block cache
		for k := 0; k < 2; k++ {
			want, have := byte(0), false
			if v, ok := committed[k]; ok {
				want, have = v, true
			}
			if intx {
				if v, ok := pending[k]; ok {
					want, have = v, true
				}
			}
			v, err := s.Get(keys[k])
			if have {
				verifAssert("C12/read-sees-latest-write", err == nil && len(v) == 1 && v[0] == want)
			} else {
				verifAssert("C12/read-not-found", err != nil)
			}
		}
	}
}

// verifC12_checkkv: a receipt passes iff it reports every key the transaction wrote.
func verifC12_checkkv() {
	e := &executor{}
	nmem := verifChoose("nmem", 3)
	nkv := verifChoose("nkv", 3)
	var mem []string
	for i := 0; i < nmem; i++ {
		mem = append(mem, string(verifC12Key("mem", 2)))
	}
	var kvs []*types.KeyValue
	for i := 0; i < nkv; i++ {
		kvs = append(kvs, &types.KeyValue{Key: verifC12Key("kv", 2), Value: []byte("v")})
	}
	err := e.checkKV(mem, kvs)
	all := true
	for _, m := range mem {
		in := false
		for _, kv := range kvs {
			if string(kv.Key) == m {
				in = true
			}
		}
		if !in {
			all = false
		}
	}
	verifAssert("C12/checkkv-iff-all-reported", (err == nil) == all)
}

// verifC12_localkey: a local-data key is accepted for an executor iff it is
// "LODB-<execer>-<non-empty rest>" for the executor's own or real name.
func verifC12_localkey() {
	cfg := types.VerifNewConfigForks("verif", types.DefaultCoinPrecision, nil, map[string]int64{})
	execs := [][]byte{[]byte("coins"), []byte("user.p.guodun.token"), []byte("user.write"), []byte("t")}
	ex := execs[verifChoose("execer", len(execs))]
	// the key is built from a template with symbolic bytes so that the interesting region
	// (right prefix, wrong separator, short keys, other executor) is reachable
	var key []byte
	switch verifChoose("template", 4) {
	case 0: // arbitrary short key
		key = verifBytes("key", verifChoose("key.len", 8))
	case 1: // LODB + sep + own name + sep + rest
		key = append([]byte("LODB"), verifU8("sep1"))
		key = append(key, ex...)
		key = append(key, verifU8("sep2"))
		key = append(key, verifBytes("rest", verifChoose("rest.len", 3))...)
	case 2: // LODB-<real name>-rest
		key = append([]byte("LODB-"), types.GetRealExecName(ex)...)
		key = append(key, verifU8("sep2"))
		key = append(key, verifBytes("rest", verifChoose("rest.len", 3))...)
	case 3: // symbolic prefix, right tail
		key = verifBytes("prefix", 4)
		key = append(key, '-')
		key = append(key, ex...)
		key = append(key, '-', 'x')
	}
	want := func(name []byte) bool {
		p := append(append([]byte("LODB-"), name...), '-')
		return len(key) > len(p) && bytes.HasPrefix(key, p)
	}
	ok := want(ex) || (len(types.GetRealExecName(ex)) > 0 && want(types.GetRealExecName(ex)))
	err := isAllowLocalKey(cfg, ex, key)
	verifAssert("C12/local-key-allowed-iff-own-prefix", (err == nil) == ok)
	// checkPrefix rejects by panicking (recovered by execLocalTx's caller)
	e := &executor{cfg: cfg}
	accepted := func() (acc bool) {
		defer func() {
			if r := recover(); r != nil {
				acc = false
			}
		}()
		return e.checkPrefix(ex, []*types.KeyValue{{Key: key, Value: []byte("v")}}) == nil
	}()
	verifAssert("C12/checkprefix-agrees", accepted == ok)
}

// ---- state-key write permission (isAllowKeyWrite) ----

// every other executor declines to be a friend (engine-only stub of loadDriver returns it)
type verifC12Driver struct{ drivers.Driver }

func (verifC12Driver) IsFriend(selfexec []byte, writekey []byte, othertx *types.Transaction) bool {
	return false
}

func verifC12LoadDriver(e *executor, tx *types.Transaction, index int) drivers.Driver {
	return verifC12Driver{}
}

// verifC12_statekey: with no friend relation, a transaction of executor X may write a state
// key only inside X's own namespace (mavl-X-...) or inside the area other executors reserve
// for X's address (mavl-<any>-exec-<address of X>:...).
func verifC12_statekey() {
	para := verifChoose("parachain", 2) == 1
	title := "verif"
	if para {
		title = "user.p.v."
	}
	cfg := types.VerifNewConfigForks(title, types.DefaultCoinPrecision, nil, map[string]int64{"ForkExecKey": 0})
	e := &executor{api: &verifAPI12{cfg: cfg}, cfg: cfg, height: 10, driverCache: map[string]drivers.Driver{}}
	execer := [][]byte{[]byte("ab"), []byte("a"), []byte("user.p.v.ab"), []byte("user.p.w.ab")}[verifChoose("tx.execer", 4)]
	tx := &types.Transaction{Execer: execer}
	// key = "mavl-" + <symbolic name over a small alphabet> + "-" + rest
	n := 1 + verifChoose("key.exec.len", verifParam("namelen", 3))
	name := verifBytes("key.exec", n)
	for _, c := range name {
		verifAssume(c == 'a' || c == 'b' || c == '.' || c == '-')
	}
	rest := [][]byte{[]byte("x"), []byte("exec-" + drivers.ExecAddress(string(execer)) + ":y"), []byte("exec-" + drivers.ExecAddress("other") + ":y")}[verifChoose("key.rest", 3)]
	key := append(append(append([]byte("mavl-"), name...), '-'), rest...)
	allowed := isAllowKeyWrite(e, key, types.GetRealExecName(execer), tx, 0)
	keyExecer, err := types.FindExecer(key)
	own := err == nil && bytes.Equal(keyExecer, cfg.GetParaExec(execer))
	addr, ok := types.GetExecKey(key)
	reserved := ok && addr == drivers.ExecAddress(string(execer))
	if allowed {
		verifAssert("C12/state-write-only-in-own-namespace-or-reserved-area", own || reserved)
	} else {
		verifAssert("C12/own-namespace-always-writable", !own && !reserved)
	}
	verifObserve("allowed", allowed)
}

type verifAPI12 struct {
	client.QueueProtocolAPI
	cfg *types.Chain33Config
}

func (a *verifAPI12) GetConfig() *types.Chain33Config { return a.cfg }
