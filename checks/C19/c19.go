package PKGNAME

import (
	"errors"

	"github.com/33cn/chain33/common/address"
)

var (
	verifErrA = errors.New("verif: not an A address")
	verifErrB = errors.New("verif: not a B address")
)

// model driver: accepts addresses starting with a given letter
type verifDrv struct {
	name   string
	letter byte
	err    error
}

func (d *verifDrv) PubKeyToAddr(pubKey []byte) string { return "" }
func (d *verifDrv) ValidateAddr(addr string) error {
	if len(addr) > 0 && addr[0] == d.letter {
		return nil
	}
	return d.err
}
func (d *verifDrv) GetName() string                        { return d.name }
func (d *verifDrv) FromString(addr string) ([]byte, error) { return nil, nil }
func (d *verifDrv) ToString(addr []byte) string            { return "" }
func (d *verifDrv) FormatAddr(addr string) string          { return addr }

var verifAddrs = []string{"A!", "B!", "C!"} // none of them is valid base58 for the btc drivers

// verifC19_checkaddress: validity of (address, height) depends only on the address, the
// height and the driver configuration - not on an earlier query, and not on map order.
func verifC19_checkaddress() {
	e5, e6 := verifI64("enable-A"), verifI64("enable-B")
	verifAssume(e5 >= 0 && e6 >= 0)
	address.VerifSetDriver(5, &verifDrv{"verifA", 'A', verifErrA}, e5)
	address.VerifSetDriver(6, &verifDrv{"verifB", 'B', verifErrB}, e6)
	if verifChoose("earlier-query", 2) == 1 {
		h0 := verifI64("earlier-height")
		verifAssume(h0 >= 0)
		address.CheckAddress(verifAddrs[verifChoose("earlier-addr", len(verifAddrs))], h0)
	}
	a := verifChoose("addr", len(verifAddrs))
	h := verifI64("height")
	verifAssume(h >= 0)
	got := address.CheckAddress(verifAddrs[a], h)
	want := (a == 0 && h >= e5) || (a == 1 && h >= e6)
	verifAssert("C19/valid-iff-an-enabled-driver-accepts", (got == nil) == want)
}

// verifC19_error_deterministic: for an invalid address the returned error value is the
// same on every evaluation (map iteration order is explored / natively re-sampled).
func verifC19_error_deterministic() {
	address.VerifSetDriver(5, &verifDrv{"verifA", 'A', verifErrA}, 0)
	address.VerifDropDriver(6)
	verifMapOrder(true)
	first := address.CheckAddress("C!", 10)
	for i := 0; i < verifNativeRepeat(64); i++ {
		address.VerifPurgeCheckCache()
		again := address.CheckAddress("C!", 10)
		verifAssert("C19/same-error-on-every-evaluation", again == first)
	}
}

var verifPKs = [][]byte{
	{2, 0x50, 0x4f, 0xa1, 0xc2, 0x8c, 0xaa, 0xf1, 0xd5, 0xa2, 0x0f, 0xef, 0xb8, 0x7c, 0x50, 0xa4, 0x97, 0x24, 0xff, 0x40, 0x1c, 0x21, 0xb9, 0x7a, 0x8f, 0x3e, 0x59, 0x53, 0x7e, 0x3d, 0x0a, 0x09, 0x31},
	{3, 0x11, 0x22, 0x33, 0x44, 0x55, 0x66, 0x77, 0x88, 0x99, 0xaa, 0xbb, 0xcc, 0xdd, 0xee, 0xff, 0x01, 0x02, 0x03, 0x04, 0x05, 0x06, 0x07, 0x08, 0x09, 0x0a, 0x0b, 0x0c, 0x0d, 0x0e, 0x0f, 0x10, 0x20},
}

// verifC19_pubkey: the address of a public key under a driver does not depend on which
// keys were mapped before, under this or another driver.
func verifC19_pubkey() {
	fresh := make(map[int]map[int]string)
	for id := 0; id < 2; id++ {
		fresh[id] = map[int]string{}
		for k := range verifPKs {
			v := byte(address.NormalVer)
			if id == MultiSignAddressID {
				v = address.MultiSignVer
			}
			fresh[id][k] = FormatBtcAddr(v, verifPKs[k])
		}
	}
	n := verifParam("queries", 3)
	for q := 0; q < n; q++ {
		id := verifChoose("driver", 2)
		k := verifChoose("key", len(verifPKs))
		got := address.PubKeyToAddr(int32(id), verifPKs[k])
		verifAssert("C19/pubkey-address-independent-of-history", got == fresh[id][k])
	}
}
