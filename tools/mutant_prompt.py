#!/usr/bin/env python3
import json, sys
pid = sys.argv[1]
for l in open('/verif/properties.jsonl'):
    p = json.loads(l)
    if p['id'] == pid:
        break
print(f"""You are helping test a verification effort for the Go project 33cn/chain33 (a modular blockchain framework). You have your own scratch git worktree of the repository at /tmp/mut_{pid} (work ONLY there; do not touch /repo or /verif, and do not read anything under /verif).

Property under test ({pid}): "{p['title']}"
Statement: {p['statement']}
Quantified over: {p['quantifier']['text']}
Relevant files (hints): {', '.join(p['anchors']['files'])}

Task: produce ONE realistic change to the chain33 source (non-test .go files) in /tmp/mut_{pid} that BREAKS this property, while the code still compiles and the EXISTING test suite of the touched package(s) still passes. The change should look like a plausible maintainer mistake (an off-by-one, a dropped check, a wrong comparison, a missing copy, a swapped argument, a stale cache, ...), and it must need something SPECIFIC to manifest — a particular unusual input, boundary value, multi-step sequence of operations, interleaving, or two cooperating sites that each look fine alone — not something ordinary use exposes at once. Keep it small (a few lines).

Deliver, inside /tmp/mut_{pid}:
 1. the source change itself (leave it applied in the worktree, uncommitted),
 2. a demonstration: a new Go test file (name it zz_mutdemo_test.go in the relevant package) that FAILS with your change and PASSES on the original code. Verify both: run it with the change applied, then save the source change with `git diff -- . ":(exclude)*zz_mutdemo_test.go" > /tmp/mut_{pid}.patch`, revert it with `git apply -R /tmp/mut_{pid}.patch` (keep the test), run again, then re-apply with `git apply /tmp/mut_{pid}.patch`. Do NOT use git stash (the stash is shared with other worktrees).
 3. confirm the package's existing tests still pass with the change: `go test -vet=off -count=1 ./<pkg>/...` for each touched package (skip only tests that also fail/time out on the unmodified code, and say which).

Environment: offline sandbox. Before go commands: export GOFLAGS=-mod=mod GOPROXY=off GOSUMDB=off GOTOOLCHAIN=local . Use `timeout 600` on test runs.

Final answer (plain text): the path of the changed file(s), a unified diff of the source change (git diff, excluding the demo test), the demo test path, what specific condition is needed for the breakage to manifest, and the exact commands you ran with their pass/fail results. Do not commit anything.""")
