#!/usr/bin/env python3
"""Regenerates /verif/MANIFEST.json from checks/*/check.json, tools/levels.json and tools/not_applicable.json."""
import json, os, glob
root = os.path.dirname(os.path.dirname(os.path.abspath(__file__)))
props = [json.loads(l) for l in open(os.path.join(root, 'properties.jsonl')) if l.strip()]
ids = [p['id'] for p in props]
levels = json.load(open(os.path.join(root, 'tools', 'levels.json')))
na = json.load(open(os.path.join(root, 'tools', 'not_applicable.json')))
checks = []
claimed = set()
for d in sorted(glob.glob(os.path.join(root, 'checks', 'C[0-9][0-9]'))):
    cid = os.path.basename(d)
    cj = os.path.join(d, 'check.json')
    if not os.path.exists(cj) or cid in na:
        continue
    c = json.load(open(cj))
    lv = levels.get(cid, {})
    claimed.add(cid)
    checks.append({
        "property_id": cid,
        "quick_cmd": f"./bin/vcheck run {cid} --tier quick",
        "thorough_cmd": f"./bin/vcheck run {cid} --tier thorough",
        "evidence_file": f"/verif/evidence/{cid}.json",
        "replay_cmd_template": f"./bin/vcheck replay {cid} {{path}}",
        "engine": "vcheck",
        "level_claimed": {
            "category": "model_checking",
            "text": lv.get("text", "bounded symbolic model checking of the real code: every path of the harness is explored and every assertion decided by an SMT query, within the stated bounds"),
            "design_ref": lv.get("design_ref", "DESIGN.md §4 " + cid),
        },
        "level_note": lv.get("note", "; ".join(c.get("assumptions", [])) or "engine (go/ssa interpreter + term rewriting + z3) is trusted; see DESIGN.md §2"),
        "technique": "go/ssa symbolic execution of the real functions (own interpreter) + SMT: every branch and assertion on every path is decided by z3 5.1.0 (z3 4.8.12 re-decides the assertion queries in the thorough tier); counterexamples and sampled path models are replayed natively against the real build",
    })
not_app = []
for i in ids:
    if i not in claimed:
        not_app.append({"property_id": i, "reason": na.get(i, "no check built yet (see DESIGN.md)")})
m = {
    "version": 1,
    "setup_cmd": "cd /verif/engine && GOFLAGS=-mod=mod GOPROXY=off GOSUMDB=off GOTOOLCHAIN=local go build -o /verif/bin/vcheck ./cmd/vcheck",
    "hooks": {
        "guard": "verif",
        "enable": "none needed: harnesses are injected with go/packages overlays (engine) and go test -overlay (native replay); /repo is not modified",
        "baseline_off_cmd": json.load(open('/root/.vp/BASELINE.json'))["cmd"] if os.path.exists('/root/.vp/BASELINE.json') else "go test ./...",
        "source_commits": [],
        "add_only": True,
    },
    "engines": [{
        "name": "vcheck", "path": "/verif/engine",
        "serves_properties": sorted(claimed),
        "kind_free_text": "own symbolic executor for go/ssa (fork of x/tools go/ssa/interp): symbolic scalars as SMT terms, path forking by re-execution, z3 over stdin, native replay via go test -overlay",
    }],
    "checks": checks,
    "not_applicable": not_app,
    "notes": "exit codes: 0 held within bounds, 1 VIOLATION (after native replay), 2 INCONCLUSIVE (unknown/unsupported/unwinding; never reported as success)",
}
json.dump(m, open(os.path.join(root, 'MANIFEST.json'), 'w'), indent=1)
print("claimed", len(checks), "not_applicable", len(not_app))
