#!/usr/bin/env python3
"""Collects the last measured wall time / path count of every check from work/sweep/*.log into docs/timings.json
(committed; DESIGN.md §9 prints it)."""
import re, glob, json, os
root = os.path.dirname(os.path.dirname(os.path.abspath(__file__)))
out = {}
for f in sorted(glob.glob(os.path.join(root, 'work', 'sweep', 'C*.log'))):
    base = os.path.basename(f)[:-4]
    cid, tier = base.split('.')
    last = None
    tot_paths = 0; tot_wall = 0.0; ok = True
    for l in open(f, errors='ignore'):
        m = re.match(r'(OK|INCONCLUSIVE) property=(\S+).*?paths=(\d+) queries=(\d+) validated=(\d+) wall=([\d.]+)s', l)
        if m and m.group(1) == 'OK':
            tot_paths += int(m.group(3)); tot_wall += float(m.group(6))
        if l.startswith('INCONCLUSIVE') or l.startswith('VIOLATION'):
            ok = False
    if tot_wall:
        out.setdefault(cid, {})[tier] = {'paths': tot_paths, 'wall_s': round(tot_wall, 1), 'clean': ok}
json.dump(out, open(os.path.join(root, 'docs', 'timings.json'), 'w'), indent=1, sort_keys=True)
print(len(out), 'checks')
