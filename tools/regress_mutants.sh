#!/bin/bash
# usage: tools/regress_mutants.sh <lane> <nlanes>
# Re-runs every seeded change of seeded/*/ against the current engine and checks: applies the patch to a scratch
# worktree of /repo's HEAD, runs the property's quick check against that worktree (VERIF_REPO) from a private copy
# of /verif (VERIF_DIR, so that evidence/ and replays/ of /verif are not touched), expects exit 1.
lane=${1:-0}; n=${2:-1}
copy=/tmp/verif_reg_$lane; wt=/tmp/reg_wt_$lane
rm -rf $copy; mkdir -p $copy; rsync -a --exclude work --exclude replays --exclude .git /verif/ $copy/
git -C /repo worktree remove --force $wt 2>/dev/null; git -C /repo worktree add --detach $wt HEAD >/dev/null 2>&1
k=0
for d in $(ls -d /verif/seeded/*/ | sort); do
  name=$(basename $d); k=$((k+1)); [ $((k % n)) -ne $lane ] && continue
  prop=$(python3 -c "import json;print(json.load(open('$d/meta.json'))['property'])")
  git -C $wt checkout -q -- . ; git -C $wt clean -fdq
  if ! git -C $wt apply $d/patch.diff 2>/dev/null; then echo "$name prop=$prop PATCH-DOES-NOT-APPLY"; continue; fi
  s=$(date +%s)
  VERIF_DIR=$copy VERIF_REPO=$wt timeout 1500 $copy/bin/vcheck run $prop --tier quick -j 8 > $copy/reg_$name.log 2>&1; rc=$?
  echo "$name prop=$prop rc=$rc $(( $(date +%s)-s ))s $(grep -c '^VIOLATION' $copy/reg_$name.log) violations"
done
git -C /repo worktree remove --force $wt
