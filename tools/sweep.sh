#!/bin/bash
# usage: tools/sweep.sh <tier> <jobs> [ids...]  -- runs checks sequentially, logs under work/sweep/
tier=${1:-quick}; jobs=${2:-8}; shift 2
ids="$@"; [ -z "$ids" ] && ids=$(ls /verif/checks | grep -E '^C[0-9][0-9]$')
mkdir -p /verif/work/sweep
for id in $ids; do
  s=$(date +%s)
  timeout ${SWEEP_TIMEOUT:-2400} /verif/bin/vcheck run $id --tier $tier -j $jobs > /verif/work/sweep/$id.$tier.log 2>&1
  rc=$?
  echo "$id rc=$rc $(( $(date +%s)-s ))s $(tail -1 /verif/work/sweep/$id.$tier.log | cut -c1-150)"
done
