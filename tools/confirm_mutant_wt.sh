#!/bin/bash
# usage: confirm_mutant.sh <ID> <worktree> <pkgdir-relative> [name]
# Confirms a seeded change in a scratch worktree (demo fails with it, passes without, package tests pass with it),
# stores it under /verif/seeded/<name>/ and runs the /verif check against /repo with the change applied.
set -u
ID=$1; WT=$2; PKG=$3; NAME=${4:-$ID}
export GOFLAGS=-mod=mod GOPROXY=off GOSUMDB=off GOTOOLCHAIN=local
OUT=/verif/seeded/$NAME; mkdir -p $OUT
cd $WT || exit 2
git diff -- . ':(exclude)*zz_mutdemo_test.go' > $OUT/patch.diff
cp $PKG/zz_mutdemo_test.go $OUT/zz_mutdemo_test.go 2>/dev/null
echo "== demo with change (expect FAIL)"; timeout 900 go test -vet=off -count=1 -run MutDemo ./$PKG/ > $OUT/demo_with.log 2>&1; W=$?; tail -3 $OUT/demo_with.log
git apply -R $OUT/patch.diff
echo "== demo without change (expect PASS)"; timeout 900 go test -vet=off -count=1 -run MutDemo ./$PKG/ > $OUT/demo_without.log 2>&1; WO=$?; tail -3 $OUT/demo_without.log
git apply $OUT/patch.diff
echo "== package tests with change (expect PASS)"; timeout 1500 go test -vet=off -count=1 -skip MutDemo ./$PKG/... > $OUT/pkgtests_with.log 2>&1; PT=$?; tail -3 $OUT/pkgtests_with.log
echo "demo_with_exit=$W demo_without_exit=$WO pkgtests_exit=$PT"
echo "== check against /repo with change"
true
cd /verif && VERIF_REPO=$WT timeout 1500 ./bin/vcheck run $ID --tier quick > $OUT/check_quick.log 2>&1; CQ=$?
true
tail -6 $OUT/check_quick.log
echo "check_quick_exit=$CQ"
cat > $OUT/meta.json <<EOM
{"property": "$ID", "worktree_pkg": "$PKG", "demo_with_exit": $W, "demo_without_exit": $WO, "pkgtests_with_exit": $PT, "check_quick_exit": $CQ,
 "ran": ["go test -vet=off -count=1 -run MutDemo ./$PKG/ (with and without the change)", "go test -vet=off -count=1 -skip MutDemo ./$PKG/...", "git -C /repo apply patch.diff; ./bin/vcheck run $ID --tier quick; git -C /repo checkout -- ."],
 "needs": "TODO"}
EOM
